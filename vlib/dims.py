"""Generator dimensions shared by several properties (added after the second round of seeded changes, DESIGN 11.6).

Each is generic - none is tailored to one defect:
  whitespace_extremes   whitespace in *every* gap, many separate runs, hundreds/thousands of padding characters
  token_dictionary      words harvested from the string literals / identifiers of the tree under test + domain vocabulary
                        (the dictionary idea of coverage-guided fuzzers): labels such as 'IBAN', 'BIC', 'SWIFT'
  arg_forms             the same text handed over as plain str, as an instance of a str subclass, and as a library object
  sibling_countries     other countries under which the same BBAN text is structurally valid (same text, different country)
"""
from __future__ import annotations

import ast
import os
import re

from . import gens
from .oracles.core import matches_structure, repo_root


class UserStr(str):
    """A user-defined str subclass: still 'a text'."""


def whitespace_extremes(text, rng=None, huge=False):
    """(label, variant) pairs that normalise to the same text as `text`. huge=True adds million-character paddings."""
    ws = gens.WHITESPACE
    out = [("every-gap-space", " " + " ".join(text) + " "),
           ("every-gap-mixed", "".join(ws[(i * 7) % len(ws)] + c for i, c in enumerate(text)) + "\t\n"),
           ("every-gap-double", "  ".join(text)),
           ("lead-300", " " * 300 + text),
           ("trail-300", text + " " * 300),
           ("mid-300", text[:len(text) // 2] + "\t" * 300 + text[len(text) // 2:]),
           ("lead-trail-mid-200", " " * 200 + text[:3] + "\xa0" * 200 + text[3:] + "\n" * 200),
           ("trail-5000", text + " " * 5000),
           ("lead-70000", "\n" * 70000 + text)]
    if huge:
        out += [("trail-1.1M", text + " " * 1_100_000), ("lead-4.3M", "\t" * 4_300_000 + text),
                ("mid-17M", text[:4] + " " * 17_000_000 + text[4:])]
    return out


_WORD = re.compile(r"[A-Za-z]{2,12}")
DOMAIN_WORDS = ["IBAN", "BIC", "SWIFT", "BBAN", "ISO", "SEPA", "IBAN:", "BIC:", "SWIFT:", "IBAN-", "IBAN NO", "IBAN NR",
                "ACCOUNT", "KONTO", "NR", "NO", "XXX", "EUR", "USD"]
_TOKENS = {}


def token_dictionary(limit=120):
    """Upper-case words found in string literals, class and function names of <repo>/schwifty/**/*.py, most frequent first,
    after the fixed domain vocabulary. A change that teaches the library a new label puts that label into its source -
    and thereby into this dictionary."""
    root = os.path.join(repo_root(), "schwifty")
    if root in _TOKENS:
        return _TOKENS[root]
    counts = {}
    for dirpath, _, files in os.walk(root):
        for f in files:
            if not f.endswith(".py"):
                continue
            try:
                tree = ast.parse(open(os.path.join(dirpath, f), encoding="utf-8").read())
            except (SyntaxError, OSError):
                continue
            for node in ast.walk(tree):
                words = []
                if isinstance(node, ast.Constant) and isinstance(node.value, str) and len(node.value) <= 80:
                    words = _WORD.findall(node.value)
                elif isinstance(node, (ast.ClassDef, ast.FunctionDef)):
                    words = _WORD.findall(node.name.replace("_", " "))
                for w in words:
                    counts[w.upper()] = counts.get(w.upper(), 0) + 1
    harvested = [w for w, _ in sorted(counts.items(), key=lambda kv: (-kv[1], kv[0]))]
    seen, out = set(), []
    for w in DOMAIN_WORDS + harvested:
        if w not in seen:
            seen.add(w)
            out.append(w)
    _TOKENS[root] = out[:limit]
    return _TOKENS[root]


def token_variants(text, tokens, seps=("", " ", ": ", "\t")):
    """token before / after / between country code and rest, with separators."""
    for tok in tokens:
        for sep in seps:
            yield "token-prefix", tok + sep + text
        yield "token-prefix-lower", tok.lower() + " " + text
        yield "token-suffix", text + " " + tok
        yield "token-infix", text[:4] + " " + tok + " " + text[4:]


def arg_forms(text, cls):
    """(label, value) forms of the same text for a constructor of class `cls` (IBAN or BIC)."""
    forms = [("userstr", UserStr(text))]
    try:
        forms.append(("own-object", cls(text, allow_invalid=True)))
    except Exception:  # noqa: BLE001 - construction problems are reported by the property's own totality relation
        pass
    # the same text carried by an object of ANOTHER library class (they are all strings): it is still just that text
    try:
        from schwifty import BBAN, BIC, IBAN
        for name, other, make in (("iban-object", IBAN, lambda: IBAN(text, allow_invalid=True)),
                                  ("bic-object", BIC, lambda: BIC(text, allow_invalid=True)),
                                  ("bban-object", BBAN, lambda: BBAN(text[:2] if text[:2].isalpha() and text[:2].isascii() else "DE", text))):
            if other is cls:
                continue
            try:
                forms.append((name, make()))
            except Exception:  # noqa: BLE001
                pass
    except ImportError:
        pass
    return forms


def sibling_countries(o, cc, bban):
    """Countries other than cc under which this BBAN text is structurally valid."""
    out = []
    for c in o.table:
        if c != cc and o.bban_length(c) == len(bban) and matches_structure(o.toks[c], bban):
            out.append(c)
    return sorted(out)


def cross_class_touch(text, cc_hint="DE"):
    """Build objects of the OTHER classes from the same text (unvalidated) and read their public properties: what one class
    remembers about a text must not leak into another class's judgement of it (results depend on arguments only)."""
    from schwifty import BBAN, BIC, IBAN
    for make in (lambda: IBAN(text, allow_invalid=True), lambda: BIC(text, allow_invalid=True), lambda: BBAN(cc_hint, text)):
        try:
            o = make()
        except Exception:  # noqa: BLE001
            continue
        for name in dir(type(o)):
            if name.startswith("_") or not isinstance(getattr(type(o), name, None), property):
                continue
            try:
                getattr(o, name)
            except Exception:  # noqa: BLE001
                pass


# ---------------------------------------------------------------------------------------------- literals of the source
_LITS = {}
_LIT = re.compile(r"[A-Za-z0-9]{3,34}")


def literal_dictionary(limit=400):
    """Alphanumeric literals (3..34 characters, containing a digit or all upper case) of <repo>/schwifty/**/*.py: integer
    constants and the alphanumeric runs of string constants, docstrings included. The classic fuzzing dictionary: a change
    that treats one particular bank code, account number or prefix specially has to name it in the source."""
    root = os.path.join(repo_root(), "schwifty")
    if root in _LITS:
        return _LITS[root]
    found = {}
    for dirpath, _, files in os.walk(root):
        for f in sorted(files):
            if not f.endswith(".py"):
                continue
            try:
                tree = ast.parse(open(os.path.join(dirpath, f), encoding="utf-8").read())
            except (SyntaxError, OSError):
                continue
            for node in ast.walk(tree):
                if not isinstance(node, ast.Constant) or isinstance(node.value, bool):
                    continue
                v = node.value
                if isinstance(v, int):
                    words = [str(abs(v))]
                elif isinstance(v, str):
                    words = _LIT.findall(v)
                elif isinstance(v, bytes):
                    words = _LIT.findall(v.decode("ascii", "ignore"))
                else:
                    continue
                for w in words:
                    if 3 <= len(w) <= 34 and (any(c.isdigit() for c in w) or w.isupper()):
                        found[w.upper()] = found.get(w.upper(), 0) + 1
    # rare literals first: the frequent ones are vocabulary, the rare ones are somebody's special case
    out = [w for w, _ in sorted(found.items(), key=lambda kv: (kv[1], len(kv[0]), kv[0]))][:limit]
    _LITS[root] = out
    return out


def literal_countries(o):
    """Countries of the table whose code is named in the source (in upper case, as a whole string or identifier part)."""
    root = os.path.join(repo_root(), "schwifty")
    named = set()
    for dirpath, _, files in os.walk(root):
        for f in files:
            if f.endswith(".py"):
                try:
                    named |= set(re.findall(r"(?<![A-Za-z])([A-Z]{2})(?![A-Za-z])", open(os.path.join(dirpath, f), encoding="utf-8").read()))
                except OSError:
                    pass
    return sorted(c for c in named if c in o.table)


def literal_fits(lit, classes):
    """The literal as a value for a field of these classes ('n', 'a', 'c' per position): it is at most as wide as the field and,
    right-aligned as padding would put it, every character belongs to its position's class."""
    if not lit or len(lit) > len(classes):
        return False
    tail = classes[len(classes) - len(lit):]
    for ch, k in zip(lit, tail):
        if k == "n" and not ch.isdigit():
            return False
        if k == "a" and not ch.isalpha():
            return False
    return True


# ---------------------------------------------------------------------------------------------- interpreter configurations
CONFIGURATIONS = [("python -O", ["-O"], {}), ("python -OO", ["-OO"], {}), ("PYTHONHASHSEED=4711", [], {"PYTHONHASHSEED": "4711"}),
                  # the C locale without UTF-8 mode: the default text encoding is ASCII (the bundled data are UTF-8 files)
                  ("LC_ALL=C", [], {"LC_ALL": "C", "LANG": "C", "PYTHONUTF8": "0", "PYTHONCOERCECLOCALE": "0"})]


def across_configurations(rec, descs, relation="same_in_every_interpreter_configuration"):
    """The outcome of a call is the same in an interpreter started with -O (assert statements removed), -OO (docstrings removed
    too), another hash seed or the plain C locale as in this process (differential between configurations of the same tree). descs: vlib.calls
    descriptors."""
    import json
    import subprocess
    import sys
    from . import calls
    here = [calls.outcome(d) for d in descs]
    script = os.path.join(os.path.dirname(os.path.abspath(__file__)), "engines", "confchild.py")
    procs = []
    for name, flags, env_add in CONFIGURATIONS:
        env = dict(os.environ)
        env.update(env_add)
        env["PYTHONDONTWRITEBYTECODE"] = "1"
        env.pop("PYTHONPYCACHEPREFIX", None)
        procs.append((name, subprocess.Popen([sys.executable, *flags, script], stdin=subprocess.PIPE, stdout=subprocess.PIPE,
                                             stderr=subprocess.PIPE, env=env, text=True)))
    for name, p in procs:
        out, err = p.communicate(json.dumps(descs), timeout=900)
        if p.returncode != 0:
            rec.fail(f"configuration|{name}|child_fails", relation, {"calls": descs[:1], "configuration": name, "origin": "configurations"},
                     "outcomes", err[-400:])
            continue
        there = json.loads(out)
        for d, a, b in zip(descs, here, there):
            rec.evals += 1
            rec.classes["configuration-" + name.replace(" ", "")] += 1
            if json.loads(json.dumps(a)) != b:
                rec.fail(f"configuration|{name}|{d['op']}" + (":" + d.get("what", "") if d["op"] == "obj" else ""), relation,
                         {"calls": [d], "configuration": name, "origin": "configurations"}, a, b)
    rec.nt.add(hash(json.dumps(descs, sort_keys=True)))


def content_extremes(text):
    """(label, text) with thousands of further *significant* characters (digits / letters, not whitespace): beyond every real
    IBAN or BIC, and beyond the interpreter's limit for converting digit strings (4300 digits by default)."""
    head = text[:4]
    yield "digits-700", text + "7" * 700
    yield "digits-4400", text + "3" * 4400
    yield "digits-20000", head + "9" * 20000
    yield "letters-2300", text + "Z" * 2300
    yield "alnum-9000", head + "A1" * 4500
    yield "lower-5000", text.lower() + "x" * 5000
