"""C11 An IBAN or BIC decomposes losslessly into its published fields (DESIGN 7/C11)."""
from __future__ import annotations

from ..oracles import bic as obic
from ..oracles import reg as oreg
from ..oracles.core import ALNUM, COMPONENTS
from ..runner import HarnessError, Rec
from ._shared import gen, oracle


def check_iban(rec: Rec, text: str, origin: str, must_accept=True):
    from ..lib import IBAN, SchwiftyException
    o = oracle()
    inp = {"iban": text, "origin": origin}
    try:
        iban = IBAN(text)
    except SchwiftyException as e:
        if must_accept:
            rec.excluded["constructed valid IBAN rejected by the library (C01 territory)"] += 1
        return False
    s = str(iban)
    cc = s[:2]
    bban = s[4:]
    if iban.country_code + iban.checksum_digits + str(iban.bban) != iban.compact or iban.compact != s:
        rec.fail("concat", "cc+cd+bban==compact", inp, s, [iban.country_code, iban.checksum_digits, str(iban.bban)])
    if iban.country_code != cc or iban.checksum_digits != s[2:4] or str(iban.bban) != bban:
        rec.fail("head_fields", "head_fields", inp, [cc, s[2:4], bban], [iban.country_code, iban.checksum_digits, str(iban.bban)])
    if getattr(iban.bban, "country_code", None) != cc:
        rec.fail("bban_country", "bban_country", inp, cc, getattr(iban.bban, "country_code", None))
    pos = o.positions(cc)
    for k in COMPONENTS:
        want = o.component(cc, bban, k)
        got_i, got_b = getattr(iban, k), getattr(iban.bban, k)
        if got_i != want:
            rec.fail(f"component|{k}|{'defined' if k in pos else 'undefined'}", "component_is_table_slice", {**inp, "component": k},
                     want, got_i)
        if got_b != got_i:
            rec.fail(f"iban_vs_bban_accessor|{k}", "accessors_agree", {**inp, "component": k}, got_i, got_b)
    # fields never overlap and lie inside the BBAN (table property, observed through the accessors' ranges)
    spans = sorted((tuple(v), k) for k, v in pos.items())
    for (a, b), (c, d) in zip(spans, spans[1:]):
        if a[1] > c[0]:
            rec.fail(f"overlap|{cc}", "fields_disjoint", inp, "disjoint", [b, a, d, c])
    for (a, e), k in spans:
        if not (0 <= a <= e <= len(bban)):
            rec.fail(f"out_of_bounds|{cc}", "fields_inside", inp, len(bban), [k, a, e])
    # handing the object's own BBAN to other constructors must not alias / alter it (argument forms)
    try:
        from ..lib import BBAN
        others = [c for c in ("IS", "DE", "GB", "FR") if c != cc][:2]
        for oc in others:
            BBAN(oc, iban.bban)
            IBAN.from_bban(cc, iban.bban)
        if getattr(iban.bban, "country_code", None) != cc or any(getattr(iban, k) != o.component(cc, bban, k) for k in COMPONENTS):
            rec.fail("aliased_after_rewrap", "component_is_table_slice", {**inp, "rewrapped_as": others},
                     {k: o.component(cc, bban, k) for k in COMPONENTS}, {k: getattr(iban, k) for k in COMPONENTS})
    except Exception as e:  # noqa: BLE001
        rec.fail(f"rewrap_raises|{type(e).__name__}", "from_bban_roundtrip", inp, "no effect", f"{type(e).__name__}: {e}")
    try:
        again = IBAN.from_bban(iban.country_code, iban.bban)
        if again != iban or str(again) != s or type(again) is not IBAN:
            rec.fail("reassemble", "from_bban_roundtrip", inp, s, str(again))
        again2 = IBAN.from_bban(iban.country_code, str(iban.bban))
        if again2 != iban:
            rec.fail("reassemble_str", "from_bban_roundtrip", inp, s, str(again2))
    except Exception as e:  # noqa: BLE001
        rec.fail(f"reassemble_raises|{type(e).__name__}", "from_bban_roundtrip", inp, s, f"{type(e).__name__}: {e}")
    return True


def check_live_together(rec: Rec, items):
    """Objects of different countries carrying the same BBAN text, alive at the same time (IBANs, their BBANs and directly
    built BBAN objects), components read in turn - first to last, then last to first: each reports its own country's slices."""
    from ..lib import BBAN, IBAN, SchwiftyException
    o = oracle()
    objs = []
    try:
        for y, ty in items:
            objs.append((y, ty[4:], IBAN(ty)))
            objs.append((y, ty[4:], BBAN(y, ty[4:])))
    except SchwiftyException:
        return
    for y, bban, ob in objs + objs[::-1]:
        for k in COMPONENTS:
            want = o.component(y, bban, k)
            got = getattr(ob, k)
            if got != want:
                rec.fail(f"component|{k}|live-together", "component_is_table_slice",
                         {"iban": items[0][1], "origin": "live-together", "items": [list(i) for i in items], "component": k, "country": y},
                         want, got)
                return
    rec.classes["live-together"] += 1


def check_foreign_bban_object(rec: Rec, cc, y, bban, want_text):
    from ..lib import BBAN, IBAN, SchwiftyException
    o = oracle()
    inp = {"iban": want_text, "origin": "foreign-bban-object", "bban_object_country": cc}
    try:
        got = IBAN.from_bban(y, BBAN(cc, bban))
    except SchwiftyException:
        # refusing a BBAN object that was parsed for another country is a legitimate reading (the statement only speaks of
        # re-assembling an IBAN from its OWN country code and BBAN): tolerated
        rec.excluded["from_bban refuses a BBAN object of another country (tolerated)"] += 1
        rec.classes["foreign-bban-object"] += 1
        return
    except Exception as e:  # noqa: BLE001
        rec.fail(f"foreign_bban_object_raises|{type(e).__name__}", "from_bban_roundtrip", inp, want_text, f"{type(e).__name__}: {e}")
        return
    if str(got) != want_text or got.country_code != y or getattr(got.bban, "country_code", None) != y:
        rec.fail("foreign_bban_object_result", "from_bban_roundtrip", inp, want_text, [str(got), getattr(got.bban, "country_code", None)])
        return
    for k in COMPONENTS:
        want = o.component(y, bban, k)
        if getattr(got, k) != want or getattr(got.bban, k) != want:
            rec.fail(f"foreign_bban_object_component|{k}", "component_is_table_slice", {**inp, "component": k}, want,
                     [getattr(got, k), getattr(got.bban, k)])
            return
    rec.classes["foreign-bban-object"] += 1


def check_bic(rec: Rec, text: str, origin: str):
    from ..lib import BIC, SchwiftyException
    inp = {"bic": text, "origin": origin}
    try:
        b = BIC(text)
    except SchwiftyException as e:
        raise HarnessError(f"constructed BIC {text} rejected: {e} (C04 territory)")
    s = str(b)
    parts = [b.bank_code, b.country_code, b.location_code, b.branch_code]
    want = [s[:4], s[4:6], s[6:8], s[8:11]]
    if "".join(parts) != b.compact or b.compact != s:
        rec.fail("bic_concat", "bic_parts_concat", inp, s, parts)
    if parts != want or [len(p) for p in parts] not in ([4, 2, 2, 0], [4, 2, 2, 3]):
        rec.fail("bic_parts", "bic_parts_slices", inp, want, parts)


def replay(rec, case):
    if case["input"].get("origin") == "configurations":
        from ._configs import replay as _r
        return _r(rec, case)
    i = case["input"]
    if i.get("origin") == "foreign-bban-object":
        t = i["iban"]
        check_foreign_bban_object(rec, i["bban_object_country"], t[:2], t[4:], t)
        return
    if i.get("origin") == "live-together":
        check_live_together(rec, [tuple(x) for x in i["items"]])
        return
    if i.get("origin") == "overlay":
        overlay_stage(rec, case.get("seed", 1), "quick")
        return
    if "bic" in i:
        check_bic(rec, i["bic"], i.get("origin", "replay"))
    else:
        check_iban(rec, i["iban"], i.get("origin", "replay"))


def shard_country(arg):
    cc, seed, tier = arg
    import random
    rng = random.Random(f"{seed}:C11:{cc}")
    rec = Rec()
    g = gen()
    n = 50 if tier == "quick" else 2000
    for k in range(n):
        t = g.iban(cc, rng, ("random", "letters", "digits", "min", "max")[k % 5] if k < 5 else "random")
        check_iban(rec, t, "gen")
        rec.case(f"iban-{cc}", t, t if k == 0 else None)
        if k % 4 == 0:
            # the same BBAN text under every other country it fits (same structure, different published positions),
            # then this country again
            from ._shared import sibling_ibans
            sibs = sibling_ibans(cc, t[4:], limit=12)
            for y, ty in sibs:
                check_iban(rec, ty, "sibling")
                rec.case("iban-sibling-text", (y, ty))
                # a BBAN object parsed for THIS country handed to from_bban for the sibling country: the result is the
                # sibling's IBAN, with the sibling's field positions
                check_foreign_bban_object(rec, cc, y, t[4:], ty)
            if sibs:
                check_iban(rec, t, "after-sibling")
                check_live_together(rec, [(cc, t)] + sibs)
        # "every accepted IBAN": whatever else the library accepts among the congruent spellings of the check digits
        # (C02 says it should accept none) must decompose and re-assemble just as well
        d = int(t[2:4])
        for alias in (d - 97, d + 97):
            if 0 <= alias <= 99:
                t2 = t[:2] + f"{alias:02d}" + t[4:]
                if check_iban(rec, t2, "alias-spelling", must_accept=False) is not False:
                    rec.classes["alias-spelling-accepted"] += 1
                rec.classes["alias-spelling-tried"] += 1
    # bases solved so that the canonical digits are 02 / 98 (their aliases 99 / 01 are two-digit numbers)
    from .c02 import solve_for_digits
    for target in ("02", "98", "97", "03"):
        b = solve_for_digits(cc, g.bban(cc, rng), g.classes(cc), target, rng)
        if b:
            t = g.iban_of(cc, b)
            check_iban(rec, t, "alias-adjacent")
            rec.case("iban-alias-adjacent", t)
            d = int(target)
            for alias in (d - 97, d + 97):
                if 0 <= alias <= 99:
                    t2 = t[:2] + f"{alias:02d}" + t[4:]
                    if check_iban(rec, t2, "alias-spelling", must_accept=False) is not False:
                        rec.classes["alias-spelling-accepted"] += 1
                    rec.classes["alias-spelling-tried"] += 1
    return rec


def shard_registry(arg):
    keys, seed = arg
    import random
    rng = random.Random(f"{seed}:C11:reg:{keys[0]}")
    rec = Rec()
    g, o = gen(), oracle()
    for cc, code in keys:
        if cc not in o.table:
            continue
        pos = o.positions(cc)
        lookup = o.table[cc].get("bic_lookup_components", ["bank_code"])
        b = g.bban(cc, rng)
        off = 0
        okay = True
        for comp in lookup:
            if comp not in pos:
                okay = False
                break
            a, e = pos[comp]
            piece = code[off:off + (e - a)]
            off += e - a
            if len(piece) != e - a:
                okay = False
                break
            b = b[:a] + piece + b[e:]
        if not okay or off != len(code) or not o.accept_norm(g.iban_of(cc, b)):
            rec.excluded["registry-code-does-not-fit (C17 territory)"] += 1
            continue
        check_iban(rec, g.iban_of(cc, b), "registry-derived")
        rec.case("iban-registry-derived", (cc, b))
    return rec


def overlay_stage(rec: Rec, seed, tier):
    """'Empty when the country has no such field' and 'the BBAN substring at the published position' for tables an overlay
    file produces: every bundled country gets default_<component> keys (the bundled data carry default_currency_code for two
    countries that have the field) and free-form keys for components it has no position for, and synthetic countries with
    unusual layouts and the extreme lengths are added. Judged over the effective table, in a copy of the package."""
    import random
    from .. import gens as gens_mod
    from ..engines.pkgcopy import PackageCopy
    from ..oracles.core import IbanOracle, load_table, repo_root
    from .c08 import SYNTHETIC
    rng = random.Random(f"{seed}:C11:overlay")
    o = oracle()
    overlay = {}
    for cc in o.countries():
        free = [c for c in COMPONENTS if c not in o.positions(cc)]
        entry = {}
        for c in rng.sample(free, min(len(free), 3)):
            entry["default_" + c] = rng.choice(["EUR", "00", "X"])
        if free:
            entry[rng.choice(free) + "_note"] = "n/a"
        overlay[cc] = entry
    syn = dict(SYNTHETIC)
    for cc, spec in syn.items():
        overlay[cc] = {"country": cc, "in_sepa_zone": False, "iban_spec": cc + "2!n" + spec["bban_spec"],
                       "iban_length": spec["bban_length"] + 4, "default_currency_code": "XYD", **spec}
    with PackageCopy(repo_root(), iban_files={"zz_c11_overlay.json": overlay}, keep_bundled_bank=True) as pc:
        eff = IbanOracle(load_table(pc.iban_dir))
        g = gens_mod.Gen(eff)
        texts = [g.iban(cc, rng) for cc in eff.countries() for _ in range(2 if tier == "quick" else 20)]
        res = pc.query([{"op": "iban_info", "text": t} for t in texts] + [{"op": "from_bban", "cc": t[:2], "bban": t[4:]} for t in texts])
        if isinstance(res, dict):
            rec.fail("copy_import_fails|overlay", "component_is_table_slice", {"iban": "", "origin": "overlay"}, "imports",
                     res["import_error"][-300:])
            return
        for t, r, r2 in zip(texts, res[:len(texts)], res[len(texts):]):
            cc = t[:2]
            inp = {"iban": t, "origin": "overlay", "entry": overlay.get(cc)}
            rec.case("overlay-synthetic" if cc in syn else "overlay-extra-keys", t)
            if "ok" not in r:
                rec.excluded["constructed valid IBAN rejected in the copy (C01/C18 territory)"] += 1
                continue
            for k in COMPONENTS:
                want = eff.component(cc, t[4:], k)
                if r["ok"]["components"].get(k) != want:
                    rec.fail(f"component|{k}|{'defined' if k in eff.positions(cc) else 'undefined'}|overlay", "component_is_table_slice",
                             {**inp, "component": k}, want, r["ok"]["components"].get(k))
                    break
            if r2.get("ok") != t:
                rec.fail("reassemble|overlay", "from_bban_roundtrip", inp, t, r2)


def shard_bic(arg):
    bics, seed = arg
    import random
    rng = random.Random(f"{seed}:C11:bic:{bics[0]}")
    rec = Rec()
    iso = sorted(obic.ISO3166)
    for b in bics:
        if obic.accept_norm(b):
            check_bic(rec, b, "registry")
            rec.case("bic-registry", b, b if b.endswith("XXX") else None)
        n = rng.choice((8, 11))
        t = "".join(rng.choice(ALNUM) for _ in range(4)) + rng.choice(iso) + "".join(rng.choice(ALNUM) for _ in range(n - 6))
        check_bic(rec, t, "gen")
        rec.case(f"bic-gen-{n}", t, t)
    return rec


def run(ctx):
    import vlib.lib  # noqa: F401
    o = oracle()
    ctx.rule = ("Accepted IBANs: reference-built valid IBANs of every bundled country (random, letters-only, digits-only, min, "
                "max) and IBANs built around (a sample of) the registry's bank codes; accepted BICs: the registry's BICs and "
                "generated 8/11-character BICs over all ISO countries; a package copy whose overlay adds default_*/free-form "
                "keys to every country and synthetic countries (unusual layouts, 9- and 34-character IBANs). Every distinct accepted object is non-trivial; every "
                "country must be hit.")
    ctx.explanation = ("Oracle: slices of the compact form at the positions of the independently merged country table; "
                       "cc+digits+bban == compact; IBAN-level accessor == BBAN-level accessor == table slice (or ''); fields "
                       "disjoint and inside the BBAN; from_bban(cc, bban) == iban; BIC parts concatenate to the compact form with "
                       "lengths 4,2,2,(0|3).")
    ctx.assumptions = ["positions come from the reference merge of the JSON files on disk (C18 checks that merge)"]
    ctx.pmap(shard_country, [(cc, ctx.seed, ctx.tier) for cc in o.countries()])
    banks = oreg.load_banks()
    keys = sorted(oreg.index_by_code(banks))
    sel = keys[::ctx.pick(5, 1)]
    chunk = max(1, len(sel) // 32)
    ctx.pmap(shard_registry, [(sel[i:i + chunk], ctx.seed) for i in range(0, len(sel), chunk)])
    bics = sorted({e["bic"] for e in banks if e.get("bic")})[::ctx.pick(3, 1)]
    chunk = max(1, len(bics) // 32)
    ctx.pmap(shard_bic, [(bics[i:i + chunk], ctx.seed) for i in range(0, len(bics), chunk)])
    overlay_stage(ctx.rec, ctx.seed, ctx.tier)
    from ._configs import stage as _config_stage
    _config_stage(ctx, ['assemble', 'bic'])
    ctx.require_classes("live-together", "overlay-extra-keys", "overlay-synthetic", "foreign-bban-object", "iban-sibling-text", "iban-registry-derived", "bic-registry", "bic-gen-8", "bic-gen-11", *[f"iban-{cc}" for cc in o.countries()])
