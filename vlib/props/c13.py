"""C13 Random generation is always valid, honours pinned fields, and is reproducible (DESIGN 7/C13)."""
from __future__ import annotations

import json
import os
import subprocess
import sys

from ..engines.randchild import evaluate
from ..oracles import nat as onat
from ..oracles import reg as oreg
from ..oracles.core import matches_structure
from ..runner import HarnessError, Rec
from ._shared import gen, oracle
from .c08 import conforming
from .c12 import lookup_key

_REG = {}


def reginfo():
    if not _REG:
        banks = oreg.load_banks()
        idx = oreg.index_by_code(banks)
        per_cc = {}
        for e in banks:
            per_cc.setdefault(e.get("country_code"), []).append(e)
        _REG.update(idx=idx, per_cc=per_cc,
                    all_have_code={cc for cc, es in per_cc.items() if all(e.get("bank_code") for e in es)})
    return _REG


def pinnable(cc):
    o = oracle()
    pos = o.positions(cc)
    out = []
    for k, (a, e) in sorted(pos.items()):
        if k == "national_checksum_digits" and cc in onat.FIELD:
            continue      # derived, not pinnable
        if e > a:
            out.append(k)
    return out


def check_call(rec: Rec, call, origin):
    """Relations for one random-generation call. Returns outcome tag."""
    o = oracle()
    cc = call["cc"]
    inp = {**call, "origin": origin}
    r1 = evaluate(call)
    r2 = evaluate(call)
    if r1 != r2:
        rec.fail(f"not_reproducible_in_process|{call['cls']}", "same_seed_same_result", inp, r1, r2)
    if r1[0] == "crash":
        rec.fail(f"escape|{r1[1]}", "random_total", inp, "object or GenerateRandomOverflowError", r1)
        return "crash"
    if r1[0] == "err":
        if r1[1] != "GenerateRandomOverflowError":
            rec.fail(f"wrong_error|{r1[1]}", "only_overflow_error", inp, "GenerateRandomOverflowError", r1[1])
        return "overflow"
    s, got_cc = r1[1], r1[2]
    want_cc = cc or got_cc
    if cc and got_cc != cc:
        rec.fail("wrong_country", "requested_country", inp, cc, got_cc)
        return "ok"
    if want_cc not in o.table:
        rec.fail("country_not_in_table", "requested_country", inp, "bundled country", got_cc)
        return "ok"
    if call["cls"] == "IBAN":
        if not o.accept_norm(s) or s[:2] != want_cc:
            rec.fail(f"invalid_iban|{want_cc}", "random_valid", inp, "valid IBAN of " + want_cc, s)
            return "ok"
        bban = s[4:]
    else:
        bban = s
        if len(bban) != o.bban_length(want_cc) or not matches_structure(o.toks[want_cc], bban):
            rec.fail(f"nonconforming_bban|{want_cc}", "random_valid", inp, o.table[want_cc]["bban_spec"], s)
            return "ok"
    for k, v in call.get("pins", {}).items():
        got = o.component(want_cc, bban, k)
        if k == "bank_code" and "branch_code" not in call["pins"] and combined_span(want_cc) and len(v) == combined_span(want_cc)[1] - combined_span(want_cc)[0]:
            # a bank code pinned at the combined bank+branch width (what the registries of such countries list): it appears
            # unchanged across the two adjacent fields
            a_, e_ = combined_span(want_cc)
            got = bban[a_:e_]
        if got != v:
            rec.fail(f"pin_not_honoured|{k}|{'registry' if call['use_registry'] else 'noregistry'}", "pins_unchanged", inp,
                     {k: v}, {k: got, "result": s})
    R = reginfo()
    if call["use_registry"] and call["cls"] == "IBAN" and want_cc in R["all_have_code"]:
        lookup = o.table[want_cc].get("bic_lookup_components", ["bank_code"])
        if not any(k in call.get("pins", {}) for k in lookup):
            key = lookup_key(o.table, want_cc, bban)
            if (want_cc, key) not in R["idx"]:
                rec.fail(f"registry_draw_unlisted|{want_cc}", "registry_draw_listed_bank", inp, "a listed bank", {"key": key, "iban": s})
            else:
                from ..lib import IBAN
                if IBAN(s).bank is None:
                    rec.fail(f"registry_draw_bank_none|{want_cc}", "registry_draw_listed_bank", inp, "bank entry", None)
    return "ok"


def replay(rec, case):
    if case["input"].get("origin") == "configurations":
        from ._configs import replay as _r
        return _r(rec, case)
    i = case["input"]
    if "batch" in i:
        cross_process(rec, i["batch"], [i.get("hashseed", "0")])
        return
    call = {k: i[k] for k in ("cls", "cc", "seed", "use_registry") if k in i}
    call["pins"] = i.get("pins", {})
    if "touch" in i.get("origin", ""):
        import random
        from .c08 import touch
        before = evaluate(call)
        touch(call["cc"], random.Random(0))
        after = evaluate(call)
        if before != after:
            rec.fail("differs_after_other_use|replay", "same_seed_same_result", {**call, "origin": "touch"}, before, after)
    check_call(rec, call, "replay")


def combined_span(cc):
    """(start, end) of bank field + branch field if the country has both and the branch field follows the bank field."""
    pos = oracle().positions(cc)
    b, r = pos.get("bank_code"), pos.get("branch_code")
    if b and r and b[1] > b[0] and r[1] > r[0] and b[1] == r[0]:
        return b[0], r[1]
    return None


def draw_pins(rng, cc, p=0.3):
    """Pinned components: field-sized and conforming; half of the time a pinned bank/branch code is taken from a bank the
    registry lists for the country (a pin 'equal to a listed bank's field' is what a user of the registry mode pins)."""
    o, g = oracle(), gen()
    pins = {}
    cl = g.classes(cc)
    listed = reginfo()["per_cc"].get(cc) or []
    sample = rng.choice(listed).get("bank_code") if listed else None
    for k in pinnable(cc):
        if rng.random() < p:
            a, e = o.positions(cc)[k]
            v = conforming(rng, cl[a:e], e - a)
            if sample and k == "bank_code" and rng.random() < 0.5 and len(sample) >= e - a:
                cand = sample[:e - a]
                if all(ch in gens_class(cl[a + i]) for i, ch in enumerate(cand)):
                    v = cand
            pins[k] = v
    span = combined_span(cc)
    if span and rng.random() < 0.2:
        # the bank code pinned at the combined bank+branch width, branch not pinned: a listed code of that width verbatim,
        # or a conforming text
        a, e = span
        v = conforming(rng, cl[a:e], e - a)
        fit = [x.get("bank_code") for x in listed if x.get("bank_code") and len(x["bank_code"]) == e - a
               and all(ch in gens_class(cl[a + i]) for i, ch in enumerate(x["bank_code"]))]
        if fit and rng.random() < 0.6:
            v = rng.choice(fit)
        pins["bank_code"] = v
        pins.pop("branch_code", None)
    # keyword order is the caller's business: any order of the pinned components
    items = list(pins.items())
    rng.shuffle(items)
    return dict(items)


def gens_class(letter):
    from ..gens import _CLASS_CHARS
    return _CLASS_CHARS[letter]


def shard_country(arg):
    cc, seed, tier = arg
    import random
    rng = random.Random(f"{seed}:C13:{cc}")
    rec = Rec()
    n = 14 if tier == "quick" else 400
    tags = {"ok": 0, "overflow": 0, "crash": 0}
    # a few draws in the fresh worker state, then other uses of the country (parse, accessors, lookups), then the rest:
    # "identical on every call" includes calls made after the country has been used otherwise
    first = [{"cls": cls, "cc": cc, "seed": sd, "use_registry": ur, "pins": {}}
             for cls in ("IBAN", "BBAN") for ur in (True, False) for sd in (0, 1)]
    before = [evaluate(c) for c in first]
    if cc:
        from .c08 import touch
        touch(cc, rng)
    after = [evaluate(c) for c in first]
    for c, a, b in zip(first, before, after):
        if a != b:
            rec.fail(f"differs_after_other_use|{cc}", "same_seed_same_result", {**c, "origin": "touch"}, a, b)
        check_call(rec, c, "after-touch")
        rec.case("after-touch", json.dumps(c, sort_keys=True))
    # pins equal to what the generator would have produced anyway: a component pinned to the value that the no-registry
    # (resp. registry) draw with the same seed has there must still be honoured in the other mode
    o_ = oracle()
    if cc:
        for sd in range(3 if tier == "quick" else 40):
            # source draws: the other registry mode without pins, and the same mode with one other component pinned to a
            # random conforming value (which changes what the remaining components are derived from)
            sources = [(not m, {}) for m in (False, True)]
            for m in (False, True):
                for k0 in pinnable(cc):
                    a0, e0 = o_.positions(cc)[k0]
                    sources.append((m, {k0: conforming(rng, gen().classes(cc)[a0:e0], e0 - a0)}))
            for src_mode, src_pins in sources:
                src = evaluate({"cls": "IBAN", "cc": cc, "seed": sd, "use_registry": src_mode, "pins": src_pins})
                if src[0] != "ok":
                    continue
                target_mode = (not src_mode) if not src_pins else src_mode
                for k in pinnable(cc):
                    if k in src_pins:
                        continue
                    v = o_.component(cc, src[1][4:], k)
                    call = {"cls": "IBAN", "cc": cc, "seed": sd, "use_registry": target_mode, "pins": {k: v}}
                    check_call(rec, call, "pin-from-other-mode")
                    rec.case("pin-from-other-mode", json.dumps(call, sort_keys=True))
    for cls in ("IBAN", "BBAN"):
        for use_registry in (True, False):
            for j in range(n if cls == "IBAN" else max(3, n // 4)):
                pins = draw_pins(rng, cc, 0.0 if j < 3 else 0.35) if cc else {}
                call = {"cls": cls, "cc": cc, "seed": rng.randrange(2 ** 32), "use_registry": use_registry, "pins": pins}
                t = check_call(rec, call, "enum")
                tags[t] += 1
                nt = bool(pins) or (use_registry and cc in reginfo()["per_cc"])
                rec.case(f"{cls}-{'registry' if use_registry else 'noregistry'}-{'pinned' if pins else 'free'}-{t}",
                         json.dumps(call, sort_keys=True) if nt else None, call if j in (0, 5) else None)
    if cc and combined_span(cc):
        # the bank code pinned at the combined bank+branch width (enumerated: both classes, both modes, a listed code of that
        # width verbatim where the registry has one, and a conforming text)
        a, e = combined_span(cc)
        cl = gen().classes(cc)
        listed = reginfo()["per_cc"].get(cc) or []
        fit = sorted({x["bank_code"] for x in listed if x.get("bank_code") and len(x["bank_code"]) == e - a
                      and all(ch in gens_class(cl[a + i]) for i, ch in enumerate(x["bank_code"]))})
        vals = [conforming(rng, cl[a:e], e - a)] + ([rng.choice(fit)] if fit else [])
        for cls in ("IBAN", "BBAN"):
            for use_registry in (True, False):
                for v in vals:
                    call = {"cls": cls, "cc": cc, "seed": rng.randrange(2 ** 32), "use_registry": use_registry, "pins": {"bank_code": v}}
                    t = check_call(rec, call, "combined-width-pin")
                    rec.case("pin-combined-width" + ("-listed" if v in fit else ""), json.dumps(call, sort_keys=True))
    rec.classes[f"ok-{cc or 'ANY'}"] = tags["ok"]
    return rec


def cross_process(rec: Rec, batch, hashseeds):
    """batch items may carry 'after_failed': a call that is evaluated in THIS process right before the item (and never in the
    fresh interpreters) - the draw after a failed draw."""
    sent = [{k: v for k, v in c.items() if k != "after_failed"} for c in batch]
    here = []
    for c, c0 in zip(batch, sent):
        if "after_failed" in c:
            evaluate(c["after_failed"])
        here.append(evaluate(c0))
    env_base = dict(os.environ)
    script = os.path.join(os.path.dirname(os.path.dirname(os.path.abspath(__file__))), "engines", "randchild.py")
    procs = []
    for hs in hashseeds:
        env = dict(env_base)
        env["PYTHONHASHSEED"] = str(hs)
        procs.append((hs, subprocess.Popen([sys.executable, script], stdin=subprocess.PIPE, stdout=subprocess.PIPE,
                                           stderr=subprocess.PIPE, env=env, text=True)))
    n_diff = 0
    for hs, p in procs:
        out, err = p.communicate(json.dumps(sent), timeout=600)
        if p.returncode != 0:
            raise HarnessError(f"random child failed (PYTHONHASHSEED={hs}): {err[-500:]}")
        there = json.loads(out)
        for c, a, b in zip(batch, here, there):
            if a != b:
                n_diff += 1
                rec.fail(f"differs_across_processes|{c['cls']}|{c['cc'] or 'ANY'}", "same_seed_every_process",
                         {"batch": [c], "hashseed": str(hs)}, a, b)
    return n_diff


def strategy():
    from hypothesis import strategies as st
    o = oracle()
    ccs = o.countries()

    @st.composite
    def call(draw):
        cc = draw(st.sampled_from(ccs + ["", ""]))
        pins = {}
        if cc:
            r = draw(st.randoms(use_true_random=False))
            pins = draw_pins(r, cc, draw(st.sampled_from([0.0, 0.3, 0.6, 1.0])))
        return {"cls": draw(st.sampled_from(["IBAN", "IBAN", "BBAN"])), "cc": cc, "seed": draw(st.integers(0, 2 ** 63)),
                "use_registry": draw(st.booleans()), "pins": pins}
    return call()


def hyp_body(rec, call):
    t = check_call(rec, call, "hyp")
    nt = bool(call["pins"]) or call["use_registry"]
    rec.case(f"hyp-{'pinned' if call['pins'] else 'free'}-{t}", json.dumps(call, sort_keys=True) if nt else None)


def run(ctx):
    import vlib.lib  # noqa: F401
    o = oracle()
    reginfo()
    ctx.rule = ("Every bundled country and the no-country form x {IBAN.random, BBAN.random} x {registry, no registry} x seeds x "
                "subsets of pinnable components (fields the country defines, exact width, class-conforming; derived national "
                "check fields excluded), enumerated per country and drawn by Hypothesis; a fixed batch re-evaluated in fresh "
                "interpreters under several PYTHONHASHSEED values. Non-trivial = at least one pin, or registry mode in a "
                "registry country; distinct by call.")
    ctx.explanation = ("Oracle: O-iban accepts the result (O-struct for BBAN.random) and the country is the requested one; each "
                       "pinned component is read back unchanged at the table position; only GenerateRandomOverflowError may be "
                       "raised; two evaluations with Random(seed) are equal in-process and across processes/hash seeds; registry "
                       "draws in countries whose entries all carry a bank code belong to a listed bank (reference index).")
    ctx.assumptions = ["pins outside the field's width/class are outside the statement and not generated"]
    ccs = o.countries() + [""]
    ctx.pmap(shard_country, [(cc, ctx.seed, ctx.tier) for cc in ccs])
    ctx.hyp_parallel(strategy, hyp_body, ctx.pick(6000, 300000), name="C13-hyp")
    # cross-process / hash-seed reproducibility of a fixed batch
    rng = ctx.rng("batch")
    batch = []
    for i in range(ctx.pick(600, 6000)):
        cc = rng.choice(ccs)
        batch.append({"cls": "IBAN" if i % 4 else "BBAN", "cc": cc, "seed": rng.randrange(2 ** 32),
                      "use_registry": bool(i % 2), "pins": draw_pins(rng, cc, 0.25) if cc else {}})
    # stratified part: for every country with listed banks, registry-mode draws with the bank code pinned to a listed bank's
    # field value (a prefix of its registry code where the code spans several fields)
    R = reginfo()
    for cc in sorted(c for c in R["per_cc"] if c in o.table and "bank_code" in o.positions(c)):
        a, e = o.positions(cc)["bank_code"]
        codes = sorted({x["bank_code"][:e - a] for x in R["per_cc"][cc] if x.get("bank_code") and len(x["bank_code"]) >= e - a})
        for code in rng.sample(codes, min(3, len(codes))):
            cl = gen().classes(cc)[a:e]
            if all(ch in gens_class(k) for ch, k in zip(code, cl)):
                batch.append({"cls": "IBAN", "cc": cc, "seed": rng.randrange(2 ** 32), "use_registry": True, "pins": {"bank_code": code}})
    # draws after FAILED draws: in this process a registry-mode draw that ends in the overflow error (pins for which no
    # national check digit exists) comes first; the draw with the same seed and country without pins is part of the batch, and
    # the fresh interpreters below have never seen the failed call
    n_over = 0
    for cc in sorted(onat.FIELD):
        if cc not in o.table:
            continue
        for _ in range(ctx.pick(60, 400)):
            pins = {}
            cl = gen().classes(cc)
            for k in pinnable(cc):
                a, e = o.positions(cc)[k]
                pins[k] = conforming(rng, cl[a:e], e - a)
            sd = rng.randrange(2 ** 32)
            r0 = evaluate({"cls": "IBAN", "cc": cc, "seed": sd, "use_registry": False, "pins": pins})
            if r0[0] == "err" and r0[1] == "GenerateRandomOverflowError":
                for sd2 in (sd, rng.randrange(2 ** 32)):
                    failed = {"cls": "IBAN", "cc": cc, "seed": sd2, "use_registry": True, "pins": pins}
                    r = evaluate(failed)
                    if r[0] == "err":
                        n_over += 1
                        batch.append({"cls": "IBAN", "cc": cc, "seed": sd2, "use_registry": True, "pins": {}, "after_failed": failed})
                        batch.append({"cls": "BBAN", "cc": cc, "seed": sd2, "use_registry": True, "pins": {}, "after_failed": failed})
                break
    ctx.rec.classes["draw-after-failed-draw"] += n_over
    hs = ["0", "1", "2", "4242"] if ctx.quick else ["0", "1", "2", "3", "7", "42", "4242", "99999", "123456789", "4294967295",
                                                     "random", "random", "random", "random", "random", "random"]
    cross_process(ctx.rec, batch, hs)
    ctx.rec.evals += len(batch) * len(hs)
    ctx.rec.classes["cross-process-comparisons"] += len(batch) * len(hs)
    ctx.extra["hash_seeds"] = hs
    ctx.rec.sample("cross-process", {"batch_size": len(batch), "first": batch[0], "hashseeds": hs})
    from ._configs import stage as _config_stage
    _config_stage(ctx, ['random'])
    ctx.require_classes("draw-after-failed-draw", "pin-combined-width", "pin-combined-width-listed", "pin-from-other-mode", "after-touch", "IBAN-registry-pinned-ok", "IBAN-noregistry-pinned-ok", "IBAN-registry-free-ok", "BBAN-registry-free-ok",
                        "hyp-pinned-ok", "cross-process-comparisons", *[f"ok-{cc or 'ANY'}" for cc in ccs])
