"""Process-wide singletons shared by the property modules (built before forking, inherited by shards)."""
from __future__ import annotations

from .. import gens
from ..oracles.core import ALNUM, IbanOracle

_ORACLE = None
_GEN = None


def oracle() -> IbanOracle:
    global _ORACLE, _GEN
    if _ORACLE is None:
        _ORACLE = IbanOracle()
        _GEN = gens.Gen(_ORACLE)
    return _ORACLE


def gen() -> gens.Gen:
    oracle()
    return _GEN


def sibling_ibans(cc, bban, limit=6):
    """(country, valid IBAN text) for the other countries under which this BBAN text is structurally valid: the same BBAN
    text under a different country must be judged by that country's rules, whatever was seen before."""
    from ..dims import sibling_countries
    from ..oracles.core import canonical_digits
    o = oracle()
    return [(y, y + canonical_digits(y, bban) + bban) for y in sibling_countries(o, cc, bban)[:limit]]


def char_cat(ch):
    if ch in ALNUM:
        return "alnum"
    if ch.isascii():
        return "ascii-lower" if ch.islower() else ("ascii-space" if ch.isspace() else "ascii-other")
    if ch.isspace():
        return "uni-space"
    if ch.isdecimal():
        return "uni-digit"
    if ch.isdigit() or ch.isnumeric():
        return "uni-numeric"
    if ch.upper() != ch:
        return "uni-cased"
    if ch.isalpha():
        return "uni-letter"
    return "uni-other"


# ---------------------------------------------------------------------------------------------------------------
# Oracle self-tests against literals the repository itself publishes as correct (exit 2 on failure, skip if absent)

def selftest_de():
    import os
    import re
    from ..oracles import de as ode
    from ..oracles.core import repo_root
    from ..runner import HarnessError
    path = os.path.join(repo_root(), "tests", "test_checksum.py")
    if not os.path.exists(path):
        return "skipped (tests/test_checksum.py absent)"
    src = open(path, encoding="utf-8").read()
    parts = re.split(r"def test_german_checksum_(success|failure)", src)
    ok = bad = 0
    if len(parts) >= 5:
        for acct, m in re.findall(r'\("(\d{10})",\s*"DE:(\w\w)"\)', parts[0]):
            if m in ode.METHODS and ode.ref(m, acct) is False:
                raise HarnessError(f"O-de rejects the repository's accepting literal {acct} (method {m})")
            ok += 1
        for acct, m in re.findall(r'\("(\d{10})",\s*"DE:(\w\w)"\)', parts[2]):
            if m in ode.METHODS and ode.ref(m, acct) is True:
                raise HarnessError(f"O-de accepts the repository's rejecting literal {acct} (method {m})")
            bad += 1
    return f"{ok} accepting / {bad} rejecting literals reproduced"


def selftest_iban():
    import os
    import re
    from ..oracles.core import repo_root
    from ..runner import HarnessError
    path = os.path.join(repo_root(), "tests", "test_iban.py")
    if not os.path.exists(path):
        return "skipped (tests/test_iban.py absent)"
    src = open(path, encoding="utf-8").read()
    o = oracle()
    out = {}
    for name, expect in (("valid", True), ("experimental", True), ("invalid", False)):
        m = re.search(rf"^{name} = \[(.*?)^\]", src, re.S | re.M)
        if not m:
            continue
        lits = re.findall(r'"([^"\n]+)"', m.group(1))
        for lit in lits:
            if o.accept(lit) is not expect:
                raise HarnessError(f"O-iban disagrees with the repository's {name} literal {lit!r}")
        out[name] = len(lits)
    return out


# ---------------------------------------------------------------------------------------------------------------
# The whole code space at one position (C01, C05): every code point 0..0x10FFFF replaces one BBAN character of a valid
# IBAN. A character that some Unicode mapping turns into an ASCII letter/digit replaces exactly that letter/digit, so
# that a library rewriting it would arrive at a valid IBAN.

def codepoint_texts(lo, hi, seed):
    import random
    from ..oracles.core import ASCII_UPPER
    o, g = oracle(), gen()
    rng = random.Random(f"{seed}:codepoints")
    ccs = [cc for cc in o.countries() if o.fixed[cc] and "c" in o.fixed[cc]]
    cc = rng.choice(ccs)
    p = rng.choice([i for i, k in enumerate(o.fixed[cc]) if k == "c"])
    b0 = g.bban(cc, rng, "letters")
    bases = {}

    def base_with(a):
        if a not in bases:
            b = b0[:p] + a + b0[p + 1:]
            bases[a] = g.iban_of(cc, b)
        return bases[a]
    for cp in range(lo, hi):
        ch = chr(cp)
        eq = gens.ascii_equivalents(ch)
        for a in (eq or [b0[p]]):
            base = base_with(a)
            yield ch, bool(eq), base[:4 + p] + ch + base[5 + p:]


# ---------------------------------------------------------------------------------------------------------------
# Component values taken from the literals of the source (vlib/dims.py literal_dictionary)

def literal_component_sets(cc, rng, limit=600, few=8):
    """(bank, branch, account) with bank and account (and sometimes the branch) taken from the source's literals where they fit
    the country's fields; all fitting pairs for countries the source names, a few for the others."""
    from .. import dims
    from .c08 import conforming, field_info
    o = oracle()
    if not o.positions(cc) or "bank_code" not in o.positions(cc) or "account_code" not in o.positions(cc):
        return []
    fi = field_info(cc)
    w = {k: fi[k][1] - fi[k][0] for k in fi}
    lits = dims.literal_dictionary()
    lb = [x for x in lits if dims.literal_fits(x, fi["bank_code"][2])]
    la = [x for x in lits if dims.literal_fits(x, fi["account_code"][2])]
    lr = [x for x in lits if dims.literal_fits(x, fi["branch_code"][2])] if w["branch_code"] else []
    if cc not in dims.literal_countries(o):
        lb, la, lr = lb[:few], la[:few], lr[:2]
        limit = few
    out = []
    for b in lb:
        for a in la:
            r = ""
            if w["branch_code"]:
                r = rng.choice(lr) if (lr and rng.random() < 0.3) else conforming(rng, fi["branch_code"][2], w["branch_code"])
            out.append((b, r, a))
    if len(out) > limit:
        # keep every literal at least once, then a sample of the pairs
        keep = {}
        for t in out:
            keep.setdefault(("b", t[0]), t)
            keep.setdefault(("a", t[2]), t)
        rest = [t for t in out if t not in keep.values()]
        out = list(dict.fromkeys(keep.values())) + rng.sample(rest, max(0, limit - len(keep)))
    return out


def literal_bbans(cc, rng, limit=600, few=8):
    """Structure-conforming BBANs whose bank / branch / account fields hold source literals (left-padded with zeros, as
    generation would pad them); the remaining positions are random."""
    from .c08 import field_info
    o, g = oracle(), gen()
    out = []
    sets = literal_component_sets(cc, rng, limit, few)
    if not sets:
        return out
    fi = field_info(cc)
    for b, r, a in sets:
        bban = list(g.bban(cc, rng))
        for k, v in (("bank_code", b), ("branch_code", r), ("account_code", a)):
            s_, e_ = fi[k][0], fi[k][1]
            if e_ > s_ and v:
                v = v.rjust(e_ - s_, "0")[: e_ - s_]
                bban[s_:e_] = list(v)
        t = "".join(bban)
        if matches(cc, t):
            out.append(((b, r, a), t))
    return out


def matches(cc, bban):
    from ..oracles.core import matches_structure
    o = oracle()
    return len(bban) == o.bban_length(cc) and matches_structure(o.toks[cc], bban)


def field_siblings(cc, field, value, rng, limit=4):
    """(country, valid IBAN text) of OTHER countries whose `field` (bank_code, branch_code, account_code) has exactly the width
    of `value` and a class the value fits: the same field text under another country is that country's business - whatever was
    learnt from it must not colour what this country's rules say about it."""
    from .. import dims
    o, g = oracle(), gen()
    out = []
    for y in o.countries():
        if y == cc:
            continue
        rng_ = o.positions(y).get(field)
        if not rng_ or rng_[1] - rng_[0] != len(value):
            continue
        cl = g.classes(y)[rng_[0]:rng_[1]]
        if not dims.literal_fits(value, cl):
            continue
        b = g.bban(y, rng)
        b = b[:rng_[0]] + value + b[rng_[1]:]
        if matches(y, b):
            out.append((y, g.iban_of(y, b)))
    rng.shuffle(out)
    return out[:limit]
