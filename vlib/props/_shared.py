"""Process-wide singletons shared by the property modules (built before forking, inherited by shards)."""
from __future__ import annotations

from .. import gens
from ..oracles.core import ALNUM, IbanOracle

_ORACLE = None
_GEN = None


def oracle() -> IbanOracle:
    global _ORACLE, _GEN
    if _ORACLE is None:
        _ORACLE = IbanOracle()
        _GEN = gens.Gen(_ORACLE)
    return _ORACLE


def gen() -> gens.Gen:
    oracle()
    return _GEN


def sibling_ibans(cc, bban, limit=6):
    """(country, valid IBAN text) for the other countries under which this BBAN text is structurally valid: the same BBAN
    text under a different country must be judged by that country's rules, whatever was seen before."""
    from ..dims import sibling_countries
    from ..oracles.core import canonical_digits
    o = oracle()
    return [(y, y + canonical_digits(y, bban) + bban) for y in sibling_countries(o, cc, bban)[:limit]]


def char_cat(ch):
    if ch in ALNUM:
        return "alnum"
    if ch.isascii():
        return "ascii-lower" if ch.islower() else ("ascii-space" if ch.isspace() else "ascii-other")
    if ch.isspace():
        return "uni-space"
    if ch.isdecimal():
        return "uni-digit"
    if ch.isdigit() or ch.isnumeric():
        return "uni-numeric"
    if ch.upper() != ch:
        return "uni-cased"
    if ch.isalpha():
        return "uni-letter"
    return "uni-other"


# ---------------------------------------------------------------------------------------------------------------
# Oracle self-tests against literals the repository itself publishes as correct (exit 2 on failure, skip if absent)

def selftest_de():
    import os
    import re
    from ..oracles import de as ode
    from ..oracles.core import repo_root
    from ..runner import HarnessError
    path = os.path.join(repo_root(), "tests", "test_checksum.py")
    if not os.path.exists(path):
        return "skipped (tests/test_checksum.py absent)"
    src = open(path, encoding="utf-8").read()
    parts = re.split(r"def test_german_checksum_(success|failure)", src)
    ok = bad = 0
    if len(parts) >= 5:
        for acct, m in re.findall(r'\("(\d{10})",\s*"DE:(\w\w)"\)', parts[0]):
            if m in ode.METHODS and ode.ref(m, acct) is False:
                raise HarnessError(f"O-de rejects the repository's accepting literal {acct} (method {m})")
            ok += 1
        for acct, m in re.findall(r'\("(\d{10})",\s*"DE:(\w\w)"\)', parts[2]):
            if m in ode.METHODS and ode.ref(m, acct) is True:
                raise HarnessError(f"O-de accepts the repository's rejecting literal {acct} (method {m})")
            bad += 1
    return f"{ok} accepting / {bad} rejecting literals reproduced"


def selftest_iban():
    import os
    import re
    from ..oracles.core import repo_root
    from ..runner import HarnessError
    path = os.path.join(repo_root(), "tests", "test_iban.py")
    if not os.path.exists(path):
        return "skipped (tests/test_iban.py absent)"
    src = open(path, encoding="utf-8").read()
    o = oracle()
    out = {}
    for name, expect in (("valid", True), ("experimental", True), ("invalid", False)):
        m = re.search(rf"^{name} = \[(.*?)^\]", src, re.S | re.M)
        if not m:
            continue
        lits = re.findall(r'"([^"\n]+)"', m.group(1))
        for lit in lits:
            if o.accept(lit) is not expect:
                raise HarnessError(f"O-iban disagrees with the repository's {name} literal {lit!r}")
        out[name] = len(lits)
    return out
