"""Process-wide singletons shared by the property modules (built before forking, inherited by shards)."""
from __future__ import annotations

from .. import gens
from ..oracles.core import ALNUM, IbanOracle

_ORACLE = None
_GEN = None


def oracle() -> IbanOracle:
    global _ORACLE, _GEN
    if _ORACLE is None:
        _ORACLE = IbanOracle()
        _GEN = gens.Gen(_ORACLE)
    return _ORACLE


def gen() -> gens.Gen:
    oracle()
    return _GEN


def char_cat(ch):
    if ch in ALNUM:
        return "alnum"
    if ch.isascii():
        return "ascii-lower" if ch.islower() else ("ascii-space" if ch.isspace() else "ascii-other")
    if ch.isspace():
        return "uni-space"
    if ch.isdecimal():
        return "uni-digit"
    if ch.isdigit() or ch.isnumeric():
        return "uni-numeric"
    if ch.upper() != ch:
        return "uni-cased"
    if ch.isalpha():
        return "uni-letter"
    return "uni-other"
