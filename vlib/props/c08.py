"""C08 Generated IBANs carry exactly the supplied components, padded, never altered (DESIGN 7/C08)."""
from __future__ import annotations

from .. import gens
from ..oracles.core import ALNUM, ASCII_DIGITS, ASCII_UPPER, norm
from ..runner import Rec
from ._shared import gen, oracle

_REGCODES = {}
FIELD_ERR = {"bank_code": "InvalidBankCode", "branch_code": "InvalidBranchCode", "account_code": "InvalidAccountCode"}
_CL = {"n": set(ASCII_DIGITS), "a": set(ASCII_UPPER), "c": set(ALNUM), "e": set(" ")}


def field_info(cc):
    """{component: (start, end, class letters of the field)} for bank/branch/account (width 0 if absent)."""
    o, g = oracle(), gen()
    pos = o.positions(cc)
    cl = g.classes(cc)
    out = {}
    for k in FIELD_ERR:
        a, e = pos.get(k, (0, 0))
        out[k] = (a, e, cl[a:e])
    return out


def expectation(cc, bank, branch, account):
    """dict(must_raise, classes (or None = any library error), placement {component: (start, end, text)})."""
    o = oracle()
    vals = {"bank_code": norm(bank), "branch_code": norm(branch), "account_code": norm(account)}
    if cc not in o.table or not o.positions(cc):
        return {"must_raise": True, "classes": None, "placement": {}, "why": "unknown country or no positions"}
    fi = field_info(cc)
    wb = fi["bank_code"][1] - fi["bank_code"][0]
    wr = fi["branch_code"][1] - fi["branch_code"][0]
    overlong = []
    placement = {}
    split = False
    for k, v in vals.items():
        a, e, _ = fi[k]
        w = e - a
        if not v:
            continue
        if len(v) > w:
            if k == "bank_code" and wr > 0 and len(v) == wb + wr and not vals["branch_code"]:
                split = True
                placement["bank_code"] = (a, e, v[:wb])
                ra, re_, _ = fi["branch_code"]
                placement["branch_code"] = (ra, re_, v[wb:])
            else:
                overlong.append(FIELD_ERR[k])
        else:
            placement[k] = (a, e, v.zfill(w))
    if overlong:
        conforming = True
        for k, v in vals.items():
            allowed = set().union(*[_CL[c] for c in fi[k][2]]) if fi[k][2] else set(ALNUM)
            if any(ch not in allowed for ch in v):
                conforming = False
        return {"must_raise": True, "classes": set(overlong) if conforming else None, "placement": {},
                "why": "over-long: " + ",".join(overlong)}
    return {"must_raise": False, "classes": None, "placement": placement, "split": split, "why": ""}


def call(how, cc, bank, branch, account):
    from ..lib import BBAN, IBAN
    if how == "generate":
        if branch == "":
            return IBAN.generate(cc, bank_code=bank, account_code=account)
        return IBAN.generate(cc, bank_code=bank, account_code=account, branch_code=branch)
    return IBAN.from_bban(cc, BBAN.from_components(cc, bank_code=bank, branch_code=branch, account_code=account))


def check(rec: Rec, cc, bank, branch, account, origin):
    """Returns 'ok' / 'err' / 'crash' for statistics."""
    from ..lib import SchwiftyException, frame_of
    o = oracle()
    exp = expectation(cc, bank, branch, account)
    res = None
    for how in ("generate", "from_components"):
        inp = {"cc": cc, "bank_code": bank, "branch_code": branch, "account_code": account, "how": how, "origin": origin}
        try:
            obj = call(how, cc, bank, branch, account)
        except SchwiftyException as e:
            name = type(e).__name__
            if exp["classes"] is not None and name not in exp["classes"]:
                rec.fail(f"wrong_class|{name}|want:{'+'.join(sorted(exp['classes']))}", "overlong_component_error", inp,
                         sorted(exp["classes"]), f"{name}: {e}")
            res = res or "err"
            continue
        except Exception as e:  # noqa: BLE001
            rec.fail(f"escape|{type(e).__name__}|{frame_of(e)}", "generate_total", inp, "IBAN or library error",
                     f"{type(e).__name__}: {e}")
            res = "crash"
            continue
        s = str(obj)
        if exp["must_raise"]:
            rec.fail(f"no_error|{exp['why'].split(':')[0]}|{exp['why'].split(': ')[-1]}", "must_raise", inp,
                     "library error (" + exp["why"] + ")", s)
            res = "ok"
            continue
        if not o.accept_norm(s) or s[:2] != cc:
            rec.fail("returned_invalid_iban", "generate_valid", inp, "valid IBAN of " + cc, s)
            res = "ok"
            continue
        bban = s[4:]
        for k, (a, e, want) in exp["placement"].items():
            if bban[a:e] != want:
                rec.fail(f"component_altered|{k}|{'split' if exp.get('split') else 'plain'}", "component_in_place", inp,
                         {k: want, "at": [a, e]}, {"iban": s, "found": bban[a:e]})
                break
        # the object's own accessors agree with what was placed
        for k, (a, e, want) in exp["placement"].items():
            if getattr(obj, k) != want:
                rec.fail(f"accessor_disagrees|{k}", "component_in_place", inp, want, getattr(obj, k))
                break
        res = "ok"
    return res, exp


def replay(rec, case):
    if case["input"].get("origin") == "configurations":
        from ._configs import replay as _r
        return _r(rec, case)
    import random
    i = case["input"]
    if i.get("origin") == "synthetic-layouts":
        synthetic_layouts(rec, case.get("seed", 1), "quick")
        return
    if "touch" in i.get("origin", ""):
        touch(i["cc"], random.Random(0))      # the case was observed after other uses of the country in the same process
    check(rec, i["cc"], i["bank_code"], i["branch_code"], i["account_code"], i.get("origin", "replay"))


def conforming(rng, classes, n):
    """n characters conforming (right-aligned) to the field's class string; beyond the field: the field's last class."""
    if not classes:
        return "".join(rng.choice(ASCII_DIGITS) for _ in range(n))
    out = []
    for i in range(n):
        j = len(classes) - n + i
        c = classes[j] if j >= 0 else classes[0]
        out.append(rng.choice(gens._CLASS_CHARS[c]))
    return "".join(out)


def draw_component(rng, fi, k, wother):
    a, e, cl = fi[k]
    w = e - a
    mode = rng.choice(["fit", "fit", "short", "short", "long", "combined", "ws", "alien", "empty", "zero", "ws-only", "lengthening", "grouped"])
    if mode == "grouped":
        # the value written the way people write such codes: groups of 2-4 characters joined by a separator
        v = conforming(rng, cl, max(2, w))
        g_ = rng.choice((2, 2, 3, 4))
        sep = rng.choice(["-", "-", ".", "/", " ", ":"])
        return mode, sep.join(v[i:i + g_] for i in range(0, len(v), g_))
    if mode == "ws-only":
        return mode, rng.choice([" ", "\t", "\xa0", " \n ", "  "])
    if mode == "lengthening":
        # a character whose upper-case form is longer (sharp s -> SS, ligatures ...), at exactly the field's width
        v = conforming(rng, cl, max(1, w))
        i = rng.randrange(len(v))
        return mode, v[:i] + rng.choice(["\u00df", "\ufb01", "\u0149", "\ufb03", "\u01f0"]) + v[i + 1:]
    if mode == "fit":
        return mode, conforming(rng, cl, w)
    if mode == "short":
        return mode, conforming(rng, cl, rng.randrange(1, w + 1)) if w else ""
    if mode == "long":
        return mode, conforming(rng, cl, w + rng.randrange(1, 6))
    if mode == "combined":
        return mode, conforming(rng, cl, w) + "".join(rng.choice(ASCII_DIGITS) for _ in range(wother))
    if mode == "ws":
        v = conforming(rng, cl, rng.randrange(1, w + 1)) if w else "1"
        i = rng.randrange(len(v) + 1)
        v = v[:i] + rng.choice([" ", "\t", "\xa0", "\n", "  "]) + v[i:]
        return mode, rng.choice([v, v.lower(), " " + v + " "])
    if mode == "alien":
        v = conforming(rng, cl, max(1, w))
        i = rng.randrange(len(v))
        return mode, v[:i] + rng.choice(["-", ".", "/", "\u0663", "\u00e9", "\u00df", "x", "Z", "_", "\x00", "\uff11"]) + v[i + 1:]
    if mode == "zero":
        return mode, "0" * rng.randrange(1, w + 2)
    return mode, ""


def touch(cc, rng):
    """Other uses of the same country in this process (results may not depend on history, C15): parse a valid IBAN, read all
    accessors and lookups, draw a random one. Exceptions are irrelevant here."""
    from random import Random
    from ..lib import BBAN, IBAN
    from ..oracles.core import COMPONENTS
    o = oracle()
    if cc not in o.table:
        return
    try:
        i = IBAN(gen().iban(cc, rng), validate_bban=True)
        for k in COMPONENTS:
            getattr(i, k), getattr(i.bban, k)
        i.bic, i.bank, i.bank_name, i.formatted, i.is_valid, i.in_sepa_zone
        BBAN(cc, str(i.bban)).bank_code
        IBAN.random(cc, random=Random(1))
    except Exception:  # noqa: BLE001
        pass


def shard(arg):
    cc, seed, tier = arg
    import random
    from itertools import product
    rng = random.Random(f"{seed}:C08:{cc}")
    rec = Rec()
    o = oracle()
    known = cc in o.table and bool(o.positions(cc))
    if not known:
        for phase in ("fresh", "touched"):
            if phase == "touched":
                touch(cc, rng)
            for b, r, a in (("", "", ""), (" ", "", ""), ("", "", "0"), ("0", "", "")):
                res, exp = check(rec, cc, b, r, a, f"no-positions-{phase}")
                rec.case("unknown-or-no-positions", (cc, b, r, a, phase))
        for _ in range(20):
            b, r, a = (conforming(rng, "n" * 8, rng.randrange(0, 9)) for _ in range(3))
            res, exp = check(rec, cc, b, r, a, "no-positions")
            rec.case("unknown-or-no-positions", (cc, b, r, a), {"cc": cc, "bank_code": b, "branch_code": r, "account_code": a})
        return rec
    fi = field_info(cc)
    w = {k: fi[k][1] - fi[k][0] for k in fi}
    n_ok = 0
    # enumerated grid of width classes per component
    def widths(k, other):
        ws = {0, 1, max(w[k] - 1, 0), w[k], w[k] + 1, w[k] + 5}
        if k == "bank_code":
            ws.add(w[k] + other)
        return sorted(ws)
    grid = product(widths("bank_code", w["branch_code"]), widths("branch_code", 0), widths("account_code", 0))
    for nb, nr, na in grid:
        b, r, a = conforming(rng, fi["bank_code"][2], nb), conforming(rng, fi["branch_code"][2], nr), conforming(rng, fi["account_code"][2], na)
        res, exp = check(rec, cc, b, r, a, "grid")
        n_ok += res == "ok"
        nt = exp["must_raise"] or exp.get("split") or any(len(norm(v)) < w[k] for k, v in
                                                           (("bank_code", b), ("branch_code", r), ("account_code", a)) if v)
        rec.case("grid-" + ("overlong" if exp["must_raise"] else ("split" if exp.get("split") else res)),
                 (cc, b, r, a) if nt else None,
                 {"cc": cc, "bank_code": b, "branch_code": r, "account_code": a, "outcome": res})
    rec.exhaustive.append("grid of width classes {0,1,w-1,w,w+1,w+5,combined} per component, per country")
    for k in ("bank_code", "branch_code", "account_code"):
        wk = w[k]
        if wk < 2:
            continue
        for sep in ("-", ".", "/", " "):
            for g_ in (2, 3, 4):
                v = conforming(rng, fi[k][2], wk)
                grouped = sep.join(v[i:i + g_] for i in range(0, len(v), g_))
                vals = {x: conforming(rng, fi[x][2], w[x]) for x in w}
                vals[k] = grouped
                res, exp = check(rec, cc, vals["bank_code"], vals["branch_code"], vals["account_code"], f"grouped:{k}:{sep}{g_}")
                rec.case("grouped-" + res, (cc, k, grouped))
    # the literals of the source (vlib/dims.py: literal_dictionary) as component values: every fitting (bank, account) pair,
    # and every fitting branch with a sample of them - for the countries the source names, and a handful for all others
    from .. import dims
    lits = dims.literal_dictionary()
    named = cc in dims.literal_countries(oracle())
    lb = [x for x in lits if dims.literal_fits(x, fi["bank_code"][2])]
    lr = [x for x in lits if dims.literal_fits(x, fi["branch_code"][2])] if w["branch_code"] else []
    la = [x for x in lits if dims.literal_fits(x, fi["account_code"][2])]
    if not named:
        lb, lr, la = lb[:6], lr[:3], la[:6]
    for b in lb:
        for a in la:
            r = conforming(rng, fi["branch_code"][2], w["branch_code"]) if (w["branch_code"] and rng.random() < 0.5) else ""
            res, exp = check(rec, cc, b, r, a, "source-literals")
            rec.case("source-literals-" + res, (cc, b, r, a, "lit"), {"cc": cc, "bank_code": b, "branch_code": r, "account_code": a}
                     if len(b) + len(a) > 12 else None)
    for r in lr:
        for b, a in [(rng.choice(lb or [""]), rng.choice(la or [""])) for _ in range(4)]:
            res, exp = check(rec, cc, b, r, a, "source-literals")
            rec.case("source-literals-" + res, (cc, b, r, a, "lit"))
    # bank codes exactly as the bank registry lists them for the country (whatever their width: some registries key their rows by
    # bank+branch, or bank+branch+check digit), with and without a branch code of their own
    from ..oracles import reg as oreg
    if "listed" not in _REGCODES:
        per = {}
        for (c_, code) in oreg.index_by_code(oreg.load_banks()):
            per.setdefault(c_, []).append(code)
        _REGCODES["listed"] = {c_: sorted(v) for c_, v in per.items()}
    listed = _REGCODES["listed"].get(cc, [])
    by_len = {}
    for code in listed:
        by_len.setdefault(len(code), []).append(code)
    for ln, codes in sorted(by_len.items()):
        for code in rng.sample(codes, min(len(codes), 12 if tier == "quick" else 200)):
            a = conforming(rng, fi["account_code"][2], w["account_code"])
            for r in ("", conforming(rng, fi["branch_code"][2], w["branch_code"])) if w["branch_code"] else ("",):
                res, exp = check(rec, cc, code, r, a, "registry-listed-code")
                rec.case("registry-listed-code-" + ("overlong" if exp["must_raise"] else ("split" if exp.get("split") else res)),
                         (cc, code, r, a, "listed"))
    touch(cc, rng)
    # after other uses of the country (parsing, accessor reads, lookups, random draws): empty / whitespace-only components again
    for b, r, a in (("", "", ""), (" ", "", "\t"), ("", "", "1"), ("1", "", "")):
        res, exp = check(rec, cc, b, r, a, "after-touch")
        rec.case("after-touch-" + res, (cc, b, r, a, "touched"))
    for _ in range(60 if tier == "quick" else 2500):
        mb, b = draw_component(rng, fi, "bank_code", w["branch_code"])
        mr, r = draw_component(rng, fi, "branch_code", 0)
        ma, a = draw_component(rng, fi, "account_code", 0)
        res, exp = check(rec, cc, b, r, a, f"draw:{mb}/{mr}/{ma}")
        n_ok += res == "ok"
        nt = exp["must_raise"] or exp.get("split") or "alien" in (mb, mr, ma) or "ws" in (mb, mr, ma) or "short" in (mb, mr, ma)
        rec.case(f"draw-{res}" + ("-overlong" if exp["must_raise"] else ""), (cc, b, r, a) if nt else None,
                 {"cc": cc, "bank_code": b, "branch_code": r, "account_code": a, "outcome": res, "modes": [mb, mr, ma]})
        for m in (mb, mr, ma):
            rec.classes["component-" + m] += 1
    rec.classes[f"success-{cc}"] = n_ok
    return rec


SYNTHETIC = {
    # layouts the bundled countries do not have: a reserved position between bank and branch field; branch field before the
    # bank field; bank and branch far apart with the account in between; fields of width 1
    "ZZ": {"bban_spec": "4!n1!n4!n10!n", "bban_length": 19, "positions": {"bank_code": [0, 4], "branch_code": [5, 9], "account_code": [9, 19]}},
    "ZY": {"bban_spec": "3!n4!a8!c", "bban_length": 15, "positions": {"branch_code": [0, 3], "bank_code": [3, 7], "account_code": [7, 15]}},
    "ZX": {"bban_spec": "2!a10!n2!n", "bban_length": 14, "positions": {"bank_code": [0, 2], "account_code": [2, 12], "branch_code": [12, 14]}},
    "ZW": {"bban_spec": "1!n1!n12!c", "bban_length": 14, "positions": {"bank_code": [0, 1], "branch_code": [1, 2], "account_code": [2, 14]}},
    # the longest IBAN ISO 13616 allows (34 characters; the longest bundled one has 33) and a very short one
    "ZV": {"bban_spec": "4!a6!n20!c", "bban_length": 30, "positions": {"bank_code": [0, 4], "branch_code": [4, 10], "account_code": [10, 30]}},
    "ZU": {"bban_spec": "2!n1!n3!n", "bban_length": 6, "positions": {"bank_code": [0, 2], "branch_code": [2, 3], "account_code": [3, 6]}},
}


def synthetic_layouts(rec: Rec, seed, tier):
    """'All countries with published positions' includes countries an overlay adds: a copy of the package with synthetic
    countries of unusual field layouts answers the same grid of component widths; judged by the same placement model over the
    effective table."""
    import random
    from itertools import product
    from .. import gens as gens_mod
    from ..engines.pkgcopy import PackageCopy
    from ..oracles.core import IbanOracle, load_table, repo_root
    from . import _shared
    rng = random.Random(f"{seed}:C08:synthetic")
    overlay = {}
    for cc, spec in SYNTHETIC.items():
        overlay[cc] = {"country": cc, "in_sepa_zone": False, "iban_spec": cc + "2!n" + spec["bban_spec"],
                       "iban_length": spec["bban_length"] + 4, **spec}
    with PackageCopy(repo_root(), iban_files={"zz_synthetic.json": overlay}, keep_bundled_bank=True) as pc:
        eff = IbanOracle(load_table(pc.iban_dir))
        saved = (_shared._ORACLE, _shared._GEN)
        _shared._ORACLE, _shared._GEN = eff, gens_mod.Gen(eff)
        try:
            cases = []
            for cc in SYNTHETIC:
                fi = field_info(cc)
                w = {k: fi[k][1] - fi[k][0] for k in fi}
                ws = {k: sorted({0, 1, max(w[k] - 1, 0), w[k], w[k] + 1}) for k in w}
                ws["bank_code"] = sorted(set(ws["bank_code"]) | {w["bank_code"] + w["branch_code"], w["bank_code"] + w["branch_code"] + 1,
                                                                  fi["branch_code"][1] - fi["bank_code"][0]})
                for nb, nr, na in product(ws["bank_code"], ws["branch_code"], ws["account_code"]):
                    if nb < 0:
                        continue
                    b, r, a = conforming(rng, fi["bank_code"][2] + fi["branch_code"][2], nb)[:nb], conforming(rng, fi["branch_code"][2], nr), \
                        conforming(rng, fi["account_code"][2], na)
                    cases.append((cc, b, r, a))
            ops = [{"op": "generate", "cc": cc, "bank_code": b, "account_code": a, "branch_code": r} for cc, b, r, a in cases]
            res = pc.query(ops)
            if isinstance(res, dict):
                rec.fail("copy_import_fails|synthetic-layouts", "generate_total", {"cc": "ZZ", "bank_code": "", "branch_code": "",
                         "account_code": "", "how": "copy", "origin": "synthetic-layouts"}, "imports", res["import_error"][-300:])
                return
            for (cc, b, r, a), out in zip(cases, res):
                exp = expectation(cc, b, r, a)
                inp = {"cc": cc, "bank_code": b, "branch_code": r, "account_code": a, "how": "generate", "origin": "synthetic-layouts",
                       "layout": SYNTHETIC[cc]}
                rec.case("synthetic-" + ("overlong" if exp["must_raise"] else ("split" if exp.get("split") else "fits")), (cc, b, r, a, "syn"),
                         {"cc": cc, "bank_code": b, "branch_code": r, "account_code": a, "result": out.get("ok", out.get("err"))})
                if "crash" in out:
                    rec.fail(f"escape|{out['crash']}|synthetic-layouts", "generate_total", inp, "IBAN or library error", out)
                elif "err" in out:
                    if exp["classes"] is not None and out["err"] not in exp["classes"]:
                        rec.fail(f"wrong_class|{out['err']}|synthetic-layouts", "overlong_component_error", inp, sorted(exp["classes"]), out)
                else:
                    s_ = out["ok"]
                    if exp["must_raise"]:
                        rec.fail("no_error|synthetic-layouts|" + exp["why"], "must_raise", inp, "library error (" + exp["why"] + ")", s_)
                    elif not eff.accept_norm(s_) or s_[:2] != cc:
                        rec.fail("returned_invalid_iban|synthetic-layouts", "generate_valid", inp, "valid IBAN of " + cc, s_)
                    else:
                        for k, (a_, e_, want) in exp["placement"].items():
                            if s_[4:][a_:e_] != want:
                                rec.fail(f"component_altered|{k}|synthetic-layouts", "component_in_place", inp, {k: want, "at": [a_, e_]}, s_)
                                break
        finally:
            _shared._ORACLE, _shared._GEN = saved


def strategy():
    from hypothesis import strategies as st
    o = oracle()
    ccs = [c for c in o.countries()]
    comp = st.one_of(st.text(alphabet=st.sampled_from(ASCII_DIGITS), max_size=24),
                     st.text(alphabet=st.sampled_from(ALNUM + "abz -"), max_size=24),
                     st.text(alphabet=st.characters(codec=None, exclude_categories=()), max_size=12))
    cc = st.one_of(st.sampled_from(ccs), st.sampled_from(["XX", "de", "", "D", "DEU", "ZZ", "\u00df"]))
    return st.tuples(cc, comp, comp, comp)


def hyp_body(rec, v):
    cc, b, r, a = v
    res, exp = check(rec, cc, b, r, a, "hyp")
    rec.case(f"hyp-{res}" + ("-overlong" if exp["must_raise"] else ""), (cc, b, r, a) if (b or r or a) else None,
             {"cc": cc, "bank_code": b, "branch_code": r, "account_code": a, "outcome": res} if (b + r + a).isascii() else None)


def run(ctx):
    import vlib.lib  # noqa: F401
    o = oracle()
    ctx.rule = ("Every bundled country (with and without positions) and unknown/lower-case/empty country codes x component "
                "strings: an enumerated grid of width classes {0,1,w-1,w,w+1,w+5,combined} per component; drawn components in "
                "modes fit/short/long/combined/whitespace+case/alien characters/zero/empty; Hypothesis text components. Both "
                "IBAN.generate and IBAN.from_bban(BBAN.from_components). Non-trivial = over-long component, split bank code, "
                "padded (shorter) component, whitespace/case variant or non-conforming character; distinct by argument tuple.")
    ctx.explanation = ("Oracle: reference placement (norm(v).zfill(width) at the table position; combined-width bank code split "
                       "when no branch code is supplied) and O-iban validity of the result. Over-long => library error of a class "
                       "specific to an over-long component (when all characters conform). Nothing outside the library's "
                       "exception family may escape.")
    ctx.assumptions = ["success is not demanded for fitting components (the statement allows a library error); success counts per "
                       "country are reported and must be > 0",
                       "'supplied' = non-empty after whitespace removal"]
    ccs = o.countries() + ["XX", "de", "", "ZZ"]
    ctx.pmap(shard, [(cc, ctx.seed, ctx.tier) for cc in ccs])
    ctx.hyp_parallel(strategy, hyp_body, ctx.pick(8000, 400000), name="C08-hyp")
    synthetic_layouts(ctx.rec, ctx.seed, ctx.tier)
    with_pos = []
    for cc in o.countries():
        pos = o.positions(cc)
        if not pos:
            continue
        cl = gen().classes(cc)
        covered = set()
        for k in ("bank_code", "branch_code", "account_code"):
            a, e = pos.get(k, (0, 0))
            covered.update(range(a, e))
        fld = pos.get("national_checksum_digits")
        if fld and cc in ("IT", "SM"):
            covered.update(range(*fld))
        # zero filler can only satisfy numeric / alphanumeric positions: elsewhere success is impossible by construction
        if all(cl[i] in "nc" for i in range(len(cl)) if i not in covered):
            with_pos.append(cc)
    ctx.extra["countries_where_generate_cannot_succeed"] = sorted(
        cc for cc in o.countries() if o.positions(cc) and cc not in with_pos)
    ctx.extra["countries_with_positions"] = len(with_pos)
    ctx.extra["success_per_country_min"] = min(ctx.rec.classes.get(f"success-{cc}", 0) for cc in with_pos)
    from ._configs import stage as _config_stage
    _config_stage(ctx, ['generate'])
    ctx.require_classes("registry-listed-code-ok", "registry-listed-code-overlong", "registry-listed-code-split", "source-literals-ok", "synthetic-fits", "synthetic-split", "synthetic-overlong", "grid-overlong", "grid-split", "grid-ok", "draw-ok", "draw-err-overlong", "unknown-or-no-positions",
                        "grouped-ok", "grouped-err", "component-grouped", "component-alien", "component-ws", "component-ws-only", "component-lengthening", "after-touch-ok", "after-touch-err", "hyp-ok", *[f"success-{cc}" for cc in with_pos])
