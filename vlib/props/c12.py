"""C12 Bank-code <-> BIC lookups agree with the bundled registry and with each other (DESIGN 7/C12)."""
from __future__ import annotations

from collections import Counter

from ..oracles import reg as oreg
from ..oracles.core import IbanOracle, canonical_digits
from ..runner import HarnessError, Rec
from ._shared import gen, oracle

# ------------------------------------------------------------------------------------------------ reference

def ref_candidates(entries):
    return [e["bic"] for e in entries if e.get("bic")]


def judge_candidates(entries, got):
    """None if `got` (list of BIC strings) is a correct candidate list for the entries, else a reason."""
    want = ref_candidates(entries)
    if Counter(got) != Counter(want):
        return "not the registry's non-empty BICs"
    prim = [e["bic"] for e in entries if e.get("bic") and e.get("primary")]
    if Counter(got[:len(prim)]) != Counter(prim):
        return "a non-primary entry precedes a primary one"
    return None


def judge_choice(cands, got):
    if got not in cands:
        return "not a candidate"
    if any(len(c) == 8 for c in cands):
        return None if len(got) == 8 else "an 8-character candidate exists"
    if any(c.endswith("XXX") and len(c) == 11 for c in cands):
        return None if got.endswith("XXX") else "an XXX candidate exists"
    return None if got == cands[0] else "not the first candidate"


def lookup_key(table, cc, bban):
    spec = table[cc]
    comps = spec.get("bic_lookup_components", ["bank_code"])
    pos = spec.get("positions", {})
    out = ""
    for c in comps:
        a, e = pos.get(c, (0, 0))
        out += bban[a:e]
    return out


def place_key(o: IbanOracle, g, cc, code, rng):
    """A valid IBAN of cc whose bank-identifying fields hold `code`, or None if the code does not fit."""
    spec = o.table[cc]
    comps = spec.get("bic_lookup_components", ["bank_code"])
    pos = spec.get("positions", {})
    b = g.bban(cc, rng)
    off = 0
    for c in comps:
        if c not in pos:
            return None
        a, e = pos[c]
        piece = code[off:off + (e - a)]
        if len(piece) != e - a:
            return None
        off += e - a
        b = b[:a] + piece + b[e:]
    if off != len(code):
        return None
    t = cc + canonical_digits(cc, b) + b
    return t if o.accept_norm(t) else None


# ------------------------------------------------------------------------------------------------ relations
# `api` abstracts over "library in this process" and "library in a package copy" (same relation code for both).

def _caller_changes(v):
    """A returned list belongs to the caller: it sorts, filters and pops as it likes, and no later answer may show it."""
    if type(v) is list:
        v.reverse()
        del v[1:]
        v.append("changed-by-caller")


class LocalApi:
    def candidates(self, cc, code):
        from ..lib import BIC, outcome
        def f():
            got = BIC.candidates_from_bank_code(cc, code)
            out = [str(b) for b in got]
            _caller_changes(got)
            return out
        return outcome(f)

    def from_bank_code(self, cc, code):
        from ..lib import BIC, outcome
        return outcome(lambda: str(BIC.from_bank_code(cc, code)))

    def bic_info(self, bic):
        from ..lib import BIC, outcome
        def f():
            b = BIC(bic, allow_invalid=True)
            codes = b.domestic_bank_codes
            out = {"domestic_bank_codes": list(codes), "exists": b.exists}
            _caller_changes(codes)
            return out
        return outcome(f)

    def iban_info(self, text):
        from ..lib import IBAN, outcome
        def f():
            i = IBAN(text)
            bic = i.bic
            return {"bic": None if bic is None else str(bic), "bank": i.bank, "bank_name": i.bank_name,
                    "bank_short_name": i.bank_short_name}
        return outcome(f)


def check_key(rec: Rec, api, idx, by_bic, cc, code, where):
    entries = idx.get((cc, code), [])
    inp = {"cc": cc, "code": code, "where": where, "entries": [{"bic": e.get("bic"), "primary": e.get("primary")} for e in entries][:12]}
    c = api.candidates(cc, code)
    f = api.from_bank_code(cc, code)
    if c[0] == "crash" or f[0] == "crash":
        rec.fail(f"crash|{(c if c[0] == 'crash' else f)[1:]}", "lookup_total", inp, "list or InvalidBankCode", [c, f])
        return
    if not entries:
        if c[0] != "err" or c[1] != "InvalidBankCode":
            rec.fail("unlisted_candidates", "unlisted_raises_InvalidBankCode", inp, "InvalidBankCode", c)
        if f[0] != "err" or f[1] != "InvalidBankCode":
            rec.fail("unlisted_from_bank_code", "unlisted_raises_InvalidBankCode", inp, "InvalidBankCode", f)
        return
    if c[0] != "ok":
        rec.fail(f"listed_candidates_raise|{c[1]}", "candidates_are_registry_bics", inp, ref_candidates(entries), c)
        return
    why = judge_candidates(entries, c[1])
    if why:
        rec.fail(f"candidates|{why}", "candidates_are_registry_bics", inp, ref_candidates(entries), c[1])
        return
    if not c[1]:
        if f[0] != "err" or f[1] != "InvalidBankCode":
            rec.fail("bicless_from_bank_code", "bicless_raises_InvalidBankCode", inp, "InvalidBankCode", f)
        return
    if f[0] != "ok":
        rec.fail(f"from_bank_code_raises|{f[1]}", "choice", inp, "a candidate", f)
        return
    why = judge_choice(c[1], f[1])
    if why:
        rec.fail(f"choice|{why}", "choice", inp, c[1], f[1])
    for b in set(c[1]):
        info = api.bic_info(b)
        want_codes = {e.get("bank_code") for e in by_bic.get(b, [])} - {"", None}
        if info[0] != "ok":
            rec.fail("bic_info_raises", "inversion", {**inp, "bic": b}, sorted(want_codes), info)
            continue
        got = set(info[1]["domestic_bank_codes"]) - {"", None}
        if code not in got or info[1]["exists"] is not True:
            rec.fail("inversion_missing", "inversion", {**inp, "bic": b}, f"{code} listed, exists", info[1])
        elif got != want_codes:
            rec.fail("inversion_set", "inversion", {**inp, "bic": b}, sorted(want_codes), sorted(got))


def check_iban(rec: Rec, api, table, idx, text, where):
    cc, bban = text[:2], text[4:]
    key = lookup_key(table, cc, bban)
    entries = idx.get((cc, key), [])
    inp = {"iban": text, "key": key, "where": where}
    r = api.iban_info(text)
    if r[0] != "ok":
        rec.fail(f"iban_info|{r[0]}|{r[1]}", "iban_lookup_total", inp, "info", r)
        return
    info = r[1]
    if not entries:
        if any(info[k] is not None for k in ("bic", "bank", "bank_name", "bank_short_name")):
            rec.fail("unlisted_iban_not_none", "iban_unlisted_none", inp, None, info)
        return
    if info["bank"] not in entries:
        rec.fail("iban_bank_not_listed_entry", "iban_bank", inp, "one of the listed entries", info["bank"])
        return
    if info["bank_name"] != info["bank"].get("name") or info["bank_short_name"] != info["bank"].get("short_name"):
        rec.fail("iban_bank_names", "iban_bank_names", inp, [info["bank"].get("name"), info["bank"].get("short_name")],
                 [info["bank_name"], info["bank_short_name"]])
    f = api.from_bank_code(cc, key)
    want = f[1] if f[0] == "ok" else None
    if info["bic"] != want:
        rec.fail("iban_bic", "iban_bic_is_lookup", inp, want, info["bic"])
    elif want is not None:
        why = judge_choice(ref_candidates(entries), want) if Counter(ref_candidates(entries)) else None
        if why and why != "not the first candidate":
            rec.fail(f"iban_bic_choice|{why}", "choice", inp, ref_candidates(entries), want)
    if want is None and ref_candidates(entries):
        rec.fail("iban_bic_none_but_listed", "iban_bic_is_lookup", inp, ref_candidates(entries), None)


def replay(rec, case):
    if case["input"].get("origin") == "configurations":
        from ._configs import replay as _r
        return _r(rec, case)
    i = case["input"]
    if i.get("where", "").startswith("copy"):
        run_config(rec, i["config"], "replay")
        return
    banks = oreg.load_banks()
    idx, by_bic = oreg.index_by_code(banks), oreg.index_by_bic(banks)
    if "iban" in i:
        check_iban(rec, LocalApi(), oracle().table, idx, i["iban"], "replay")
    else:
        check_key(rec, LocalApi(), idx, by_bic, i["cc"], i["code"], "replay")


# ------------------------------------------------------------------------------------------------ real data

_REAL = {}


def real():
    if not _REAL:
        banks = oreg.load_banks()
        _REAL.update(banks=banks, idx=oreg.index_by_code(banks), by_bic=oreg.index_by_bic(banks))
    return _REAL


def shard_real(arg):
    keys, seed = arg
    import random
    rng = random.Random(f"{seed}:C12:{keys[0]}")
    rec = Rec()
    R = real()
    o, g = oracle(), gen()
    api = LocalApi()
    for cc, code in keys:
        entries = R["idx"][(cc, code)]
        check_key(rec, api, R["idx"], R["by_bic"], cc, code, "real")
        bics = ref_candidates(entries)
        nt = len(bics) >= 2 or len({bool(e.get("primary")) for e in entries}) > 1 or any(not e.get("bic") for e in entries)
        rec.case("key-multi" if len(bics) >= 2 else ("key-bicless" if not bics else "key-single"), (cc, code) if nt else None,
                 {"cc": cc, "code": code, "bics": bics[:6]})
        if bics:
            if any(len(b) == 8 for b in bics) and len(bics) > 1:
                rec.classes["choice-8char"] += 1
            elif any(b.endswith("XXX") for b in bics) and len(bics) > 1:
                rec.classes["choice-xxx"] += 1
            elif len(bics) > 1:
                rec.classes["choice-first"] += 1
        # unlisted neighbours
        for nb in (code[:-1] + ("0" if code[-1:] != "0" else "1"), code + "0", code[:-1], code.lower() if code.lower() != code else "", ""):
            if (cc, nb) not in R["idx"]:
                check_key(rec, api, R["idx"], R["by_bic"], cc, nb, "real-unlisted")
                rec.case("key-unlisted", (cc, nb))
        # the same concatenated text split at other boundaries (a lookup key built by concatenation would collide)
        for a, b in ((cc[:1], cc[1:] + code), (cc + code[:1], code[1:]), ("", cc + code), (cc + code, ""), (code, cc)):
            if (a, b) not in R["idx"]:
                check_key(rec, api, R["idx"], R["by_bic"], a, b, "real-unlisted")
                rec.case("key-boundary-shift", (a, b))
        for other in ("XX", "DE" if cc != "DE" else "FR", ""):
            if (other, code) not in R["idx"]:
                check_key(rec, api, R["idx"], R["by_bic"], other, code, "real-unlisted")
                rec.case("key-unlisted", (other, code))
        if cc in o.table:
            t = place_key(o, g, cc, code, rng)
            if t is None:
                rec.excluded["code does not fit the country's lookup fields (C17 territory)"] += 1
            else:
                check_iban(rec, api, o.table, R["idx"], t, "real")
                rec.case("iban-listed", ("iban", t) if nt else None, {"iban": t, "key": code} if code.endswith("7") else None)
    rec.exhaustive.append("every (country, bank code) key of the bundled registry")
    return rec


def shard_real_unlisted_ibans(arg):
    cc, seed, tier = arg
    import random
    rng = random.Random(f"{seed}:C12:u:{cc}")
    rec = Rec()
    o, g = oracle(), gen()
    R = real()
    for _ in range(30 if tier == "quick" else 600):
        t = g.iban(cc, rng)
        key = lookup_key(o.table, cc, t[4:])
        check_iban(rec, LocalApi(), o.table, R["idx"], t, "real-random")
        rec.case("iban-random-listed" if (cc, key) in R["idx"] else "iban-random-unlisted", ("iban", t))
    return rec


# ------------------------------------------------------------------------------------------------ any registry contents

SHAPES = {   # country -> pool of synthetic bank codes shaped for its lookup fields
    "DE": ["10000000", "20000000", "30000000", "12345678"],
    "GB": ["ABCD", "WXYZ", "NWBK"],
    "SI": ["01000", "02010", "99999"],
    "PL": ["10100000", "11401010", "24900005"],
    "ES": ["2100", "0049", "9111"],
}
# codes that do NOT have the shape of the country's lookup key (bank+branch spelled together, a prefix, a longer code): rows
# keyed by them exist in the registry, but no IBAN's bank-identifying fields spell them
MISSHAPEN = {
    "GB": ["NWBK601613", "ABCD000000", "NW"],
    "ES": ["91110418", "21000418", "21"],
    "DE": ["1000000", "100000001"],
    "SI": ["01", "010001"],
    "PL": ["101", "1010000"],
}
BIC_POOL_EXTRA = {"ES": ["CAIXESBB", "CAIXESBBXXX", "BSCHESMM001", "", None]}
BIC_POOL = {
    "DE": ["AAAADEFF", "AAAADEFFXXX", "AAAADEFF123", "BBBBDEM1", "BBBBDEM1XXX", "CCCCDEB1999", "CCCCDEB1ABC", "", None],
    "GB": ["NWBKGB2L", "NWBKGB2LXXX", "NWBKGB2L123", "ABCDGB22XXX", "ABCDGB22AAA", "", None],
    "SI": ["BSLJSI2X", "BSLJSI2XXXX", "BSLJSI2XFNB", "LJBASI2X001", "", None],
    "PL": ["NBPLPLPW", "NBPLPLPWXXX", "NBPLPLPWABC", "WBKPPLPP001", "WBKPPLPP002", "", None],
    "ES": ["CAIXESBB", "CAIXESBBXXX", "BSCHESMM001", "", None],
}


def gen_config(rng):
    nfiles = rng.randrange(1, 5)
    files = {}
    letters = rng.sample("abcdefghijklmnopqrstuvwxyz", nfiles)
    for li in letters:
        v2 = rng.random() < 0.35
        entries = []
        for _ in range(rng.randrange(0, 14)):
            cc = rng.choice(list(SHAPES))
            e = {"country_code": cc, "name": f"Bank {rng.randrange(100)}", "short_name": f"B{rng.randrange(100)}",
                 "bic": rng.choice(BIC_POOL[cc])}
            if v2:
                e["bank_codes"] = [rng.choice(SHAPES[cc] + [""]) for _ in range(rng.randrange(0, 4))]
                if rng.random() < 0.5:
                    e["primary"] = rng.random() < 0.5
                if rng.random() < 0.25:
                    e["bank_code"] = rng.choice(SHAPES[cc])      # left-over field named like the expansion target
            else:
                e["bank_code"] = rng.choice(SHAPES[cc] + [""] + (MISSHAPEN.get(cc, []) if rng.random() < 0.3 else []))
                e["primary"] = rng.random() < 0.5
            entries.append(e)
        if not v2 and entries and rng.random() < 0.6:
            # crowded keys: three to six rows for one (country, code), primary flags in any pattern (primary, non-primary, primary,
            # ...) and different BICs - the bundled data have at most a few rows per key, in a handful of patterns
            for _ in range(rng.randrange(1, 3)):
                cc = rng.choice(list(SHAPES))
                code = rng.choice(SHAPES[cc])
                pool = [b for b in BIC_POOL[cc] if b]
                for _ in range(rng.randrange(3, 7)):
                    entries.append({"country_code": cc, "name": f"Bank {rng.randrange(100)}", "short_name": f"B{rng.randrange(100)}",
                                    "bic": rng.choice(pool), "bank_code": code, "primary": rng.random() < 0.5})
        if v2:
            files[f"{li}bank.v2.json"] = {"expand_from": "bank_codes", "expand_into": "bank_code", "entries": entries}
        else:
            files[f"{li}bank.json"] = entries
    return files


class CopyApi:
    """Answers from a pre-computed batch of a package copy."""
    def __init__(self, answers):
        self.a = answers

    def _conv(self, r):
        if "ok" in r:
            return ("ok", r["ok"])
        if "err" in r:
            return ("err", r["err"], r.get("msg"))
        return ("crash", r.get("crash"), r.get("msg"))

    def candidates(self, cc, code):
        return self._conv(self.a[("candidates", cc, code)])

    def from_bank_code(self, cc, code):
        return self._conv(self.a[("from_bank_code", cc, code)])

    def bic_info(self, bic):
        return self._conv(self.a[("bic_info", bic)])

    def iban_info(self, text):
        return self._conv(self.a[("iban_info", text)])


LOOKUP_OVERLAY = {
    # countries an overlay adds, whose bank-identifying key is made of fields that are not adjacent / not in position order
    "ZZ": {"country": "ZZ", "in_sepa_zone": False, "bban_spec": "4!n2!n4!n8!n", "bban_length": 18, "iban_spec": "ZZ2!n4!n2!n4!n8!n",
           "iban_length": 22, "positions": {"bank_code": [0, 4], "account_type": [4, 6], "branch_code": [6, 10], "account_code": [10, 18]},
           "bic_lookup_components": ["bank_code", "branch_code"]},
    "ZY": {"country": "ZY", "in_sepa_zone": False, "bban_spec": "3!n5!n8!n", "bban_length": 16, "iban_spec": "ZY2!n3!n5!n8!n",
           "iban_length": 20, "positions": {"branch_code": [0, 3], "bank_code": [3, 8], "account_code": [8, 16]},
           "bic_lookup_components": ["bank_code", "branch_code"]},
}
SHAPES_OVERLAY = {"ZZ": ["12345678", "11112222"], "ZY": ["12345678", "00001999"]}


def run_config(rec: Rec, files, where, rng=None):
    import random
    from .. import gens as gens_mod
    from ..engines.pkgcopy import PackageCopy
    from ..oracles.core import load_table, repo_root
    rng = rng or random.Random(0)
    # rows for the overlay countries (their BICs borrow DE/FR country codes: ZZ and ZY are not ISO countries)
    files = dict(files)
    files["zzoverlaybanks.json"] = [
        {"country_code": cc, "bank_code": code, "bic": bic, "name": f"{cc}{code}", "short_name": cc, "primary": True}
        for cc, codes in SHAPES_OVERLAY.items() for code, bic in zip(codes, ("AAAADEFF", "BBBBFRPPXXX"))]
    with PackageCopy(repo_root(), bank_files=files, iban_files={"zz_lookup.json": LOOKUP_OVERLAY}) as pc:
        o = IbanOracle(load_table(pc.iban_dir))
        g = gens_mod.Gen(o)
        banks = oreg.load_banks(pc.bank_dir)
        idx, by_bic = oreg.index_by_code(banks), oreg.index_by_bic(banks)
        keys = sorted(idx)
        for cc, pool in SHAPES.items():
            for code in pool:
                if (cc, code) not in idx:
                    keys.append((cc, code))
        ops, tags = [], []
        ibans = []
        for cc, code in keys:
            ops += [{"op": "candidates", "cc": cc, "code": code}, {"op": "from_bank_code", "cc": cc, "code": code}]
            tags += [("candidates", cc, code), ("from_bank_code", cc, code)]
            t = place_key(o, g, cc, code, rng) if cc in o.table else None
            if t:
                ibans.append(t)
                ops.append({"op": "iban_info", "text": t})
                tags.append(("iban_info", t))
        # IBANs whose bank and branch fields, read together, spell a registry code that is not a lookup key of the country
        for cc, pool in MISSHAPEN.items():
            pos = o.positions(cc)
            if "bank_code" not in pos or "branch_code" not in pos:
                continue
            (a1, e1), (a2, e2) = pos["bank_code"], pos["branch_code"]
            for code in pool:
                if len(code) != (e1 - a1) + (e2 - a2) or (cc, code) not in idx:
                    continue
                b = g.bban(cc, rng)
                b = b[:a1] + code[:e1 - a1] + b[e1:]
                b = b[:a2] + code[e1 - a1:] + b[e2:]
                t = cc + canonical_digits(cc, b) + b
                if o.accept_norm(t) and t not in ibans:
                    ibans.append(t)
                    ops.append({"op": "iban_info", "text": t})
                    tags.append(("iban_info", t))
        for b in sorted(by_bic):
            ops.append({"op": "bic_info", "bic": b})
            tags.append(("bic_info", b))
        res = pc.query(ops)
        if isinstance(res, dict):
            rec.fail("copy_import_fails", "copy_imports", {"config": files, "where": "copy"}, "imports", res["import_error"][-400:])
            return 0, 0
        api = CopyApi(dict(zip(tags, res)))
        sub = Rec()
        for cc, code in keys:
            check_key(sub, api, idx, by_bic, cc, code, "copy")
        for t in ibans:
            check_iban(sub, api, o.table, idx, t, "copy")
        for k, c in sub.fails.items():
            rec.fail(k, c["relation"], {"config": files, "where": "copy:" + where, "detail": c["input"]}, c["expected"], c["observed"])
        multi = sum(1 for k in idx if len(ref_candidates(idx[k])) >= 2)
        return len(keys), multi


def shard_copy(arg):
    i, seed = arg
    import random
    rng = random.Random(f"{seed}:C12:copy:{i}")
    rec = Rec()
    files = gen_config(rng)
    nkeys, multi = run_config(rec, files, str(i), rng)
    banks = sum(len(v["entries"]) if isinstance(v, dict) else len(v) for v in files.values())
    rec.evals += nkeys
    rec.classes["copy-config"] += 1
    rec.classes["copy-keys"] += nkeys
    rec.classes["copy-keys-multi-candidate"] += multi
    if any(n.endswith(".v2.json") for n in files):
        rec.classes["copy-config-with-v2"] += 1
    rec.nt.add(hash(repr(sorted(files.items(), key=lambda kv: kv[0]))))
    if i < 2:
        rec.sample("copy-config", {"files": {k: (v if isinstance(v, list) else v["entries"])[:3] for k, v in files.items()}, "entries": banks})
    return rec


def run(ctx):
    import vlib.lib  # noqa: F401
    R = real()
    o = oracle()
    ctx.rule = ("Real data, exhaustive: every (country, bank code) key of the bundled registry (read by the reference loader), its "
                "unlisted neighbours (last digit changed, extended, shortened, lower-cased, empty, other countries), one valid IBAN "
                "built around every key, random valid IBANs of every country. Any contents: generated bank registries (1-4 files, "
                "plain and .v2.json, duplicate codes, 8-char/XXX/other-branch/empty/null BICs, random primary flags, empty bank "
                "codes) in package copies of the tree, all their keys queried. Non-trivial = key with >= 2 candidates, mixed "
                "primary flags or an empty BIC; every probed unlisted pair; every IBAN built; each generated configuration.")
    ctx.explanation = ("Oracle: reference index built from the JSON files. candidates == multiset of non-empty BICs with primaries "
                       "first; from_bank_code in candidates, 8-char if any, else XXX if any, else first; unlisted/BIC-less -> "
                       "InvalidBankCode; inversion via domestic_bank_codes/exists; iban.bank is a listed entry of the IBAN's own "
                       "lookup key, names consistent, iban.bic == from_bank_code(key) or None.")
    ctx.assumptions = ["order inside the primary / non-primary groups and which of several 8-char candidates is chosen are free"]
    keys = sorted(R["idx"])
    step = 1
    chunk = max(1, len(keys) // 64)
    ctx.pmap(shard_real, [(keys[i:i + chunk][::step], ctx.seed) for i in range(0, len(keys), chunk)])
    ctx.pmap(shard_real_unlisted_ibans, [(cc, ctx.seed, ctx.tier) for cc in o.countries()])
    ctx.pmap(shard_copy, [(i, ctx.seed) for i in range(ctx.pick(48, 1500))])
    ctx.extra["registry_keys"] = len(keys)
    ctx.extra["registry_bics"] = len(R["by_bic"])
    from ._configs import stage as _config_stage
    _config_stage(ctx, ['lookup'])
    ctx.require_classes("key-multi", "key-single", "key-bicless", "key-unlisted", "key-boundary-shift", "iban-listed", "iban-random-unlisted",
                        "choice-8char", "choice-xxx", "choice-first", "copy-config", "copy-keys-multi-candidate",
                        "copy-config-with-v2")
