"""C06 National check digits are judged by the country's published algorithm (DESIGN 7/C06)."""
from __future__ import annotations

from .. import gens
from ..oracles import nat as onat
from ..oracles.core import ASCII_DIGITS, ASCII_UPPER, norm
from ..runner import HarnessError, Rec
from ._shared import gen, oracle, sibling_ibans


def lib_verdicts(rec, text, inp):
    """(flag off, flag on via ctor, flag on via validate) as True/False, or None if something escaped."""
    from ..lib import IBAN, SchwiftyException, frame_of
    out = []
    for how in ("off", "on", "validate_on"):
        try:
            if how == "off":
                IBAN(text)
            elif how == "on":
                IBAN(text, validate_bban=True)
            else:
                IBAN(text, allow_invalid=True).validate(validate_bban=True)
            out.append(True)
        except SchwiftyException:
            out.append(False)
        except Exception as e:  # noqa: BLE001
            rec.fail(f"crash|{how}|{type(e).__name__}|{frame_of(e)}", "national_total", inp, "verdict",
                     f"{type(e).__name__}: {e}")
            return None
    # further routes to the same question: an object that was already validated WITHOUT the national check (by the constructor
    # or by validate()) is validated again WITH it, or handed to a constructor that asks for it; and an object on which the
    # national validation has just failed still answers is_valid / validate() without the flag as before
    routes = {}

    def revalidate():
        return IBAN(text).validate(validate_bban=True)

    def validate_twice():
        u = IBAN(text, allow_invalid=True)
        u.validate()
        return u.validate(validate_bban=True)

    def rewrap():
        return IBAN(IBAN(text), validate_bban=True)

    def is_valid_then_on():
        u = IBAN(text, allow_invalid=True)
        u.is_valid  # noqa: B018
        return u.validate(validate_bban=True)
    if out[0]:
        for name, fn in (("revalidate", revalidate), ("validate_twice", validate_twice), ("rewrap", rewrap), ("is_valid_then_on", is_valid_then_on)):
            try:
                fn()
                routes[name] = True
            except SchwiftyException:
                routes[name] = False
            except Exception as e:  # noqa: BLE001
                rec.fail(f"crash|{name}|{type(e).__name__}|{frame_of(e)}", "national_total", inp, "verdict", f"{type(e).__name__}: {e}")
                return None
        bad = sorted(k for k, v in routes.items() if v != out[1])
        if bad:
            rec.fail(f"route_differs|{bad[0]}", "flag_threaded", inp, {"ctor_with_flag": out[1]}, routes)
        # the other direction: after the national validation was asked for (and perhaps failed), the flag-less questions on the
        # same object still get the flag-less answer
        try:
            u = IBAN(text, allow_invalid=True)
            try:
                u.validate(validate_bban=True)
            except SchwiftyException:
                pass
            after = [u.is_valid]
            try:
                after.append(u.validate() is True)
            except SchwiftyException:
                after.append(False)
            if after != [True, True]:
                rec.fail("flagless_answer_changed_after_national_validation", "flag_threaded", inp, [True, True], after)
        except SchwiftyException:
            pass
        except Exception as e:  # noqa: BLE001
            rec.fail(f"crash|after_on|{type(e).__name__}|{frame_of(e)}", "national_total", inp, "verdict", f"{type(e).__name__}: {e}")
            return None
    return out


_TREE_ALGOS = None


def tree_algorithm_countries():
    """Countries for which the tree registers a default national algorithm (configuration discovery): a country that
    gains an algorithm later is no longer 'without a national algorithm'; without a reference it is simply not judged."""
    global _TREE_ALGOS
    if _TREE_ALGOS is None:
        try:
            from schwifty.checksum import algorithms
            _TREE_ALGOS = {k.split(":", 1)[0] for k in algorithms if k.endswith(":default")}
        except Exception:  # noqa: BLE001
            _TREE_ALGOS = set()
    return _TREE_ALGOS


def check_listed(rec: Rec, cc: str, bban: str, origin: str):
    """Relations for an ISO-valid IBAN of a listed country. Returns the reference verdict."""
    from ..lib import IBAN, SchwiftyException, frame_of
    o, g = oracle(), gen()
    text = g.iban_of(cc, bban)
    want = onat.ref(cc, bban, o.positions(cc))
    inp = {"cc": cc, "bban": bban, "iban": text, "origin": origin}
    v = lib_verdicts(rec, text, inp)
    if v is None:
        return want
    off, on, von = v
    if off is not True:
        raise HarnessError(f"constructed IBAN {text} is not accepted without national validation (C01/C02 territory)")
    if on != von:
        rec.fail(f"ctor_vs_validate|{cc}", "flag_threaded", inp, "same verdict", {"ctor": on, "validate": von})
    if want is None:
        rec.excluded["reference-undecided"] += 1
        return want
    if on is not want:
        rec.fail(f"{'false_accept' if on else 'false_reject'}|{cc}", "national_iff_reference", inp, want, on)
    # the BBAN handed to from_bban as an object - parsed for this country, or for another one whose structure the text fits too
    # (with another national algorithm, or none): the verdict asked for is this country's. Declining a foreign object is
    # tolerated; accepting what the country's algorithm rejects is not
    if origin != "source-literals":
        from ..dims import sibling_countries
        from ..lib import BBAN
        for y in [cc] + sibling_countries(o, cc, bban)[:3]:
            try:
                IBAN.from_bban(cc, BBAN(y, bban), validate_bban=True)
                got_o = True
            except SchwiftyException:
                got_o = False
            except Exception as e:  # noqa: BLE001
                rec.fail(f"crash|from_bban_object|{type(e).__name__}|{frame_of(e)}", "national_total", {**inp, "as_bban_object_of": y}, "verdict",
                         f"{type(e).__name__}: {e}")
                continue
            if got_o and want is False:
                rec.fail(f"false_accept|{cc}|bban_object_of_{'own' if y == cc else 'other'}_country", "national_iff_reference",
                         {**inp, "as_bban_object_of": y}, False, True)
            elif not got_o and want is True and y == cc:
                rec.fail(f"false_reject|{cc}|bban_object_of_own_country", "national_iff_reference", {**inp, "as_bban_object_of": y}, True, False)
            rec.classes["bban-object-" + ("own" if y == cc else "foreign")] += 1
    # BBAN-level check: True on success, raises on failure
    try:
        r = IBAN(text).bban.validate_national_checksum()
        got = ("ok", r)
    except SchwiftyException as e:
        got = ("err", type(e).__name__)
    except Exception as e:  # noqa: BLE001
        rec.fail(f"crash|bban_level|{type(e).__name__}|{frame_of(e)}", "bban_level", inp, "True or library error",
                 f"{type(e).__name__}: {e}")
        return want
    if want is True and not (got[0] == "ok" and got[1] is True):
        rec.fail(f"bban_level_success_not_true|{got}", "bban_level", inp, "True", got)
    if want is False and got[0] != "err":
        rec.fail(f"bban_level_failure_not_raised|{cc}", "bban_level", inp, "raises", got)
    return want


def check_bban_objects(rec: Rec, cc, bban, want):
    """The BBAN-level check reports the same on BBAN objects however they came about (direct construction, from the
    components, random pins) - 'success as true, failure by raising'."""
    from ..lib import BBAN, SchwiftyException, frame_of
    from ..oracles.core import COMPONENTS
    if want is None:
        return
    o = oracle()
    comps = {k: o.component(cc, bban, k) for k in COMPONENTS}
    comps = {k: v for k, v in comps.items() if v}
    makers = [("direct", lambda: BBAN(cc, bban)), ("from_components", lambda: BBAN.from_components(cc, **comps))]
    for how, make in makers:
        inp = {"cc": cc, "bban": bban, "origin": "bban-object:" + how}
        try:
            obj = make()
        except SchwiftyException:
            continue      # e.g. Norway's uncomputable digit
        except Exception as e:  # noqa: BLE001
            rec.fail(f"crash|bban_object|{how}|{type(e).__name__}|{frame_of(e)}", "bban_level", inp, "object", f"{type(e).__name__}: {e}")
            continue
        if str(obj) != bban:
            continue      # from_components recomputed different digits: the object is another BBAN (C09 judges that)
        try:
            got = ("ok", obj.validate_national_checksum())
        except SchwiftyException as e:
            got = ("err", type(e).__name__)
        except Exception as e:  # noqa: BLE001
            rec.fail(f"crash|bban_object|{how}|{type(e).__name__}|{frame_of(e)}", "bban_level", inp, "True or library error",
                     f"{type(e).__name__}: {e}")
            continue
        if want is True and not (got[0] == "ok" and got[1] is True):
            rec.fail(f"bban_object_success_not_true|{how}|{cc}", "bban_level", inp, True, got)
        if want is False and got[0] != "err":
            rec.fail(f"bban_object_failure_not_raised|{how}|{cc}", "bban_level", inp, "raises", got)
        rec.classes[f"bban-object-{how}"] += 1


def check_unlisted(rec: Rec, text: str, origin: str):
    """flag on == flag off for countries without a national algorithm; monotonic for every text."""
    inp = {"text": text, "origin": origin}
    v = lib_verdicts(rec, text, inp)
    if v is None:
        return None
    off, on, von = v
    s = norm(text)
    cc = s[:2]
    if (on or von) and not off:
        rec.fail(f"not_monotonic|{cc if cc in oracle().table else '??'}", "national_only_rejects", inp,
                 "accepted with flag => accepted without", {"off": off, "on": on, "validate_on": von})
    if cc not in onat.LISTED and cc != "DE" and cc not in tree_algorithm_countries():
        if on != off or von != off:
            rec.fail(f"unlisted_affected|{cc if cc in oracle().table else '??'}", "unlisted_unaffected", inp, off,
                     {"on": on, "validate_on": von})
    return off


def replay(rec, case):
    if case["input"].get("origin") == "configurations":
        from ._configs import replay as _r
        return _r(rec, case)
    i = case["input"]
    origin = i.get("origin", "replay")
    if origin == "registry-independence":
        registry_independence(rec, case.get("seed", 1))
        return
    if origin == "back-to-back":
        from ..lib import BBAN, SchwiftyException
        objs = [(y, by, BBAN(y, by)) for y, by in i["chain"]]
        for y, by, ob in objs + objs[::-1] + objs:
            try:
                got = ob.validate_national_checksum()
            except SchwiftyException as e:
                got = type(e).__name__
            if got is not True:
                rec.fail(f"bban_level_back_to_back|{y}", "bban_level", i, True, got)
                return
        return
    if "bban" in i:
        if origin.startswith("bban-object"):
            check_bban_objects(rec, i["cc"], i["bban"], onat.ref(i["cc"], i["bban"], oracle().positions(i["cc"])))
            return
        # same history as in the exploration: the country itself, its siblings, the country again
        check_listed(rec, i["cc"], i["bban"], origin)
        for y, t in sibling_ibans(i["cc"], i["bban"]):
            if y in onat.LISTED:
                check_listed(rec, y, i["bban"], "sibling")
            elif y != "DE":
                check_unlisted(rec, t, "sibling")
        check_listed(rec, i["cc"], i["bban"], origin)
    else:
        s = norm(i["text"])
        for y, t in sibling_ibans(s[:2], s[4:]) if s[:2] in oracle().table else []:
            if y in onat.LISTED:
                check_listed(rec, y, s[4:], "sibling")
        check_unlisted(rec, i["text"], origin)


def shard_listed(arg):
    cc, seed, tier = arg
    import random
    rng = random.Random(f"{seed}:C06:{cc}")
    rec = Rec()
    g, o = gen(), oracle()
    pos = o.positions(cc)
    cl = g.classes(cc)
    miss = onat.missing_fields(cc, pos)
    if miss:
        # the published algorithm reads a field the bundled entry does not define: the library cannot judge by it
        rec.fail(f"table_lacks_field|{cc}|{','.join(miss)}", "national_iff_reference", {"cc": cc, "positions": pos},
                 "fields " + ",".join(onat.NEEDS[cc]), {"undefined": miss})
        rec.case(f"{cc}-accept", None)
        rec.case(f"{cc}-reject", None)
        return rec
    n = 700 if tier == "quick" else 30000
    has_c = "c" in cl
    acc = rej = 0
    for k in range(n):
        variant = "random"
        if has_c and k % 3 == 1:
            variant = "letters"
        elif has_c and k % 3 == 2:
            variant = "digits"
        if k % 2 == 0:
            b = g.natvalid_bban(cc, rng, variant)
            origin = "natvalid"
            if b is None:
                raise HarnessError(f"no nationally valid BBAN constructible for {cc}")
        else:
            b = g.bban(cc, rng, variant)
            origin = "random"
        w = check_listed(rec, cc, b, origin)
        rec.case(f"{cc}-{'accept' if w else ('reject' if w is False else 'undecided')}", (cc, b) if w is not None else None,
                 {"cc": cc, "bban": b, "reference": w} if k < 2 else None)
        if k % 5 == 0:
            # same BBAN text under the other countries it fits, then this country again: each judged by its own rules
            sibs = sibling_ibans(cc, b)
            for y, t in sibs:
                if y in onat.LISTED:
                    check_listed(rec, y, b, "sibling")
                elif y != "DE":
                    check_unlisted(rec, t, "sibling")
                rec.case("sibling-text", (y, b), {"text_of": cc, "judged_as": y, "bban": b} if k == 0 else None)
            if sibs:
                check_listed(rec, cc, b, "after-sibling")
        # BBAN objects of other provenance than IBAN(...).bban: built directly and from components
        if k % 7 == 0:
            check_bban_objects(rec, cc, b, w)
        acc += w is True
        rej += w is False
        # exhaustive in the national field for some bases
        if k % (35 if tier == "quick" else 100) == 0:
            fld = onat.check_field(pos)
            if fld:
                a, e = fld
                width = e - a
                vals = [f"{i:0{width}d}" for i in range(10 ** width)] if cl[a] == "n" else list(ASCII_UPPER)
            elif cc in ("CZ", "SK"):
                a, e = pos["account_code"][1] - 1, pos["account_code"][1]
                vals = list(ASCII_DIGITS)
            else:  # IS
                a = pos["account_holder_id"][0] + 8
                e = a + 1
                vals = list(ASCII_DIGITS)
            n_acc = 0
            for v in vals:
                b2 = b[:a] + v + b[e:]
                w2 = check_listed(rec, cc, b2, "field-sweep")
                n_acc += w2 is True
                rec.case(f"{cc}-sweep", (cc, b2) if w2 is not None else None)
            rec.classes["sweeps"] += 1
            rec.exhaustive.append("every value of the national check field for selected bases")
    # edge-directed bases: BBANs whose *valid* national field value is extreme (00, 01, 97, 98, 0, 9, A, Z ...), i.e. where the
    # algorithm sits on a remainder special case; the whole field is swept for each such base
    fld = onat.check_field(pos)
    if fld:
        a, e = fld
        width = e - a
        vals = [f"{i:0{width}d}" for i in range(10 ** width)] if cl[a] == "n" else list(ASCII_UPPER)
        edge = set(vals[:3] + vals[-3:] + ([v for v in vals if v in ("10", "11", "96", "97", "98")] if width == 2 else []))
        seen_edge = set()
        for _ in range(400 if tier == "quick" else 6000):
            b = g.bban(cc, rng, "digits" if rng.random() < 0.7 else "random")
            valid = [v for v in vals if onat.ref(cc, b[:a] + v + b[e:], pos) is True]
            hit = [v for v in valid if v in edge and v not in seen_edge]
            if not hit:
                continue
            seen_edge.update(hit)
            for v in vals:
                b2 = b[:a] + v + b[e:]
                w2 = check_listed(rec, cc, b2, "edge-sweep")
                rec.case(f"{cc}-edge-sweep", (cc, b2) if w2 is not None else None,
                         {"cc": cc, "bban": b2, "valid_field_value": hit[0]} if v == hit[0] else None)
            rec.classes["edge-sweeps"] += 1
        rec.notes.append(f"{cc}: edge field values reached: {sorted(seen_edge)}")
    if acc == 0 or rej == 0:
        raise HarnessError(f"{cc}: accept side {acc} / reject side {rej} is empty")
    # repeated values: two fields holding the same text (bank == branch, account beginning with the bank code ...), and BBANs
    # made of one digit throughout - each as it comes and with the national part solved so that the reference accepts it
    fields = [(k, tuple(v)) for k, v in sorted(pos.items()) if k in ("bank_code", "branch_code", "account_code") and v[1] > v[0]]
    shaped = []
    for _ in range(3 if tier == "quick" else 40):
        b = g.bban(cc, rng, "digits")
        for (k1, (a1, e1)) in fields:
            for (k2, (a2, e2)) in fields:
                if k1 >= k2:
                    continue
                w_ = min(e1 - a1, e2 - a2)
                v = b[a1:a1 + w_]
                b2 = b[:a2] + v + b[a2 + w_:]
                if all(ch in gens._CLASS_CHARS[cl[a2 + i]] for i, ch in enumerate(v)):
                    shaped.append(("equal-fields", b2))
    for dgt in "123456789":
        b = "".join(dgt if k in "nc" else "A" for k in cl)
        shaped.append(("uniform", b))
    for kind_, b in shaped:
        for b_ in (b, g.natvalid_from(cc, b, rng)):
            if b_:
                want = check_listed(rec, cc, b_, kind_)
                rec.case(f"shaped-{kind_}" + ("-accepted" if want else ""), (cc, b_) if want is not None else None)
    # the same bank / branch / account under the other listed countries with the same structure, one right after the other,
    # each with its own national part (what one country's algorithm worked out for these fields is not the other's answer)
    from ..dims import sibling_countries
    for _ in range(3 if tier == "quick" else 40):
        b0 = g.natvalid_bban(cc, rng)
        if not b0:
            break
        chain = [(cc, b0)]
        for y in sibling_countries(o, cc, b0):
            if y in onat.LISTED and not onat.missing_fields(y, o.positions(y)):
                by = g.natvalid_from(y, b0, rng)
                if by:
                    chain.append((y, by))
        if len(chain) < 2:
            break
        for y, by in chain + chain[::-1]:
            want = check_listed(rec, y, by, "same-fields-sibling-country")
            rec.case("same-fields-sibling-country", (y, by))
        # and at the BBAN level back to back, nothing else in between: objects first, then one national check after the other
        from ..lib import BBAN, SchwiftyException
        try:
            objs = [(y, by, BBAN(y, by)) for y, by in chain]
        except SchwiftyException:
            objs = []
        for y, by, ob in objs + objs[::-1] + objs:
            try:
                got = ob.validate_national_checksum()
            except SchwiftyException as e:
                got = type(e).__name__
            if got is not True:
                rec.fail(f"bban_level_back_to_back|{y}", "bban_level",
                         {"cc": y, "bban": by, "origin": "back-to-back", "chain": [list(x) for x in chain]}, True, got)
                break
            rec.classes["bban-level-back-to-back"] += 1
    # bank / branch / account fields holding the literals of the source (vlib/dims.py: literal_dictionary)
    from ._shared import literal_bbans
    for lits_, b in literal_bbans(cc, rng):
        want = check_listed(rec, cc, b, "source-literals")
        rec.case("source-literals", (cc, b) if want is not None else None)
    return rec


def shard_unlisted(arg):
    cc, seed, tier = arg
    import random
    rng = random.Random(f"{seed}:C06u:{cc}")
    rec = Rec()
    g = gen()
    n = 60 if tier == "quick" else 1500
    for k in range(n):
        t = g.iban(cc, rng, "random" if k % 4 else "letters")
        off = check_unlisted(rec, t, "valid")
        rec.case("unlisted-valid" if cc not in onat.LISTED and cc != "DE" else "listed-monotonic", (t,),
                 {"text": t} if k == 0 else None)
        # one mutation (mostly invalid): monotonicity and unaffectedness also on the reject side
        i = rng.randrange(len(t))
        m = t[:i] + rng.choice(ASCII_DIGITS + ASCII_UPPER + "- ") + t[i + 1:]
        check_unlisted(rec, m, "mutant")
        rec.case("mutant", (m,))
    from ._shared import literal_bbans
    for lits_, b in literal_bbans(cc, rng):
        check_unlisted(rec, g.iban_of(cc, b), "source-literals")
        rec.case("source-literals", (cc, b))
    return rec


def registry_independence(rec: Rec, seed):
    """The national verdict is the algorithm's alone: a copy of the package whose bank registry lists bank codes of the listed
    countries - nationally conforming and not - must judge IBANs built on those very codes like the reference does."""
    import random
    from ..engines.pkgcopy import PackageCopy
    from ..oracles.core import repo_root
    from .c12 import place_key
    rng = random.Random(f"{seed}:C06:registry")
    o, g = oracle(), gen()
    rows, texts = [], []
    for cc in onat.LISTED:
        spec = o.table[cc]
        pos = o.positions(cc)
        lookup = spec.get("bic_lookup_components", ["bank_code"])
        if any(c not in pos for c in lookup):
            continue
        for k in range(4):
            b = g.natvalid_bban(cc, rng) if k % 2 == 0 else g.bban(cc, rng)
            if b is None:
                continue
            code = "".join(b[pos[c][0]:pos[c][1]] for c in lookup)
            rows.append({"country_code": cc, "bank_code": code, "bic": "", "name": f"{cc}{k}", "short_name": f"{cc}{k}", "primary": True})
            texts.append((cc, b))
            # and other accounts of the same (now listed) bank code
            t = place_key(o, g, cc, code, rng)
            if t:
                texts.append((cc, t[4:]))
    with PackageCopy(repo_root(), bank_files={"listed_codes.json": rows}) as pc:
        ops = [{"op": "iban_verdict", "text": g.iban_of(cc, b), "validate_bban": True} for cc, b in texts]
        res = pc.query(ops)
        if isinstance(res, dict):
            rec.notes.append("registry-independence copy does not import: " + res["import_error"][-200:])
            return
        for (cc, b), r in zip(texts, res):
            want = onat.ref(cc, b, o.positions(cc))
            inp = {"cc": cc, "bban": b, "origin": "registry-independence", "registry_rows": [x for x in rows if x["country_code"] == cc]}
            if "crash" in r:
                rec.fail(f"crash|registry-independence|{r['crash']}", "national_total", inp, want, r)
            elif want is not None and ("ok" in r) is not want:
                rec.fail(f"{'false_accept' if 'ok' in r else 'false_reject'}|{cc}|registry-independence", "national_iff_reference", inp, want, r)
            rec.case("registry-independence", (cc, b, "copy") if want is not None else None,
                     {"cc": cc, "bban": b, "reference": want, "bank code listed in the copy's registry": True})


def run(ctx):
    import vlib.lib  # noqa: F401
    o = oracle()
    ctx.rule = ("22 listed countries: structure-conforming BBANs with ISO check digits from the reference; half with national "
                "digits solved by the independent national reference (accept side), half random (mostly reject side); "
                "digits-only / letters-only variants where the structure allows letters; for selected bases every value "
                "of the national field. All other countries (and the listed ones, for monotonicity): valid IBANs and single "
                "mutants, flag on vs off. Non-trivial = listed-country case whose reference verdict is defined, distinct by "
                "(country, BBAN); plus distinct unlisted texts.")
    ctx.explanation = ("Oracle: O-nat (vlib/oracles/nat.py), three-valued. Relations: IBAN(t, validate_bban=True) and "
                       "validate(validate_bban=True) accept <=> reference True; accepted with flag => accepted without; "
                       "unlisted countries: flag has no effect; bban.validate_national_checksum() is True / raises.")
    ctx.assumptions = ["Norway accounts starting 00: reference undecided, tolerated (counted in excluded)",
                       "Germany is judged by C07; here only monotonicity"]
    ctx.pmap(shard_listed, [(cc, ctx.seed, ctx.tier) for cc in onat.LISTED])
    ctx.pmap(shard_unlisted, [(cc, ctx.seed, ctx.tier) for cc in o.countries()])
    registry_independence(ctx.rec, ctx.seed)
    need = []
    for cc in onat.LISTED:
        need += [f"{cc}-accept", f"{cc}-reject"]
    from ._configs import stage as _config_stage
    _config_stage(ctx, ['national'])
    ctx.require_classes("bban-level-back-to-back", "shaped-equal-fields", "shaped-uniform", "same-fields-sibling-country", "bban-object-own", "bban-object-foreign", "source-literals", "registry-independence", "unlisted-valid", "mutant", "sweeps", "edge-sweeps", "sibling-text", "bban-object-direct", "bban-object-from_components", *need)
    ctx.extra["per_country"] = {cc: {"accept": ctx.rec.classes.get(f"{cc}-accept", 0),
                                     "reject": ctx.rec.classes.get(f"{cc}-reject", 0)} for cc in onat.LISTED}
