"""C07 German account numbers are judged by the Bundesbank method of their bank (DESIGN 7/C07)."""
from __future__ import annotations

from ..oracles import de as ode
from ..oracles import reg as oreg
from ..oracles.core import canonical_digits
from ..runner import HarnessError, Rec

BOUNDARIES = [59999, 60000, 60001, 5999, 6000, 395999999, 396000000, 396000001, 499999999, 500000000, 399999999,
              400000000, 400000001, 0, 1, 9, 10, 99999, 100000, 999999, 1000000, 9999999999, 999999999, 1000000000]

RANGES = [(0, 59999), (396000000, 499999999), (400000000, 499999999), (0, 999999)]     # documented "not checkable" / special ranges

_STATE = {}


def state():
    if not _STATE:
        from schwifty.checksum import algorithms
        impl = sorted(k.split(":", 1)[1] for k in algorithms if k.startswith("DE:"))
        banks = oreg.load_banks()
        idx = oreg.index_by_code(banks)
        by_method = {}
        for (cc, code), es in sorted(idx.items()):
            if cc == "DE":
                by_method.setdefault(es[0].get("checksum_algo"), []).append(code)
        _STATE.update(impl=impl, idx=idx, by_method=by_method,
                      de_codes=sorted(code for (cc, code) in idx if cc == "DE"))
    return _STATE


def direct(rec, m, acct):
    """Verdict of the tree's method object: True/False, or None when something outside the family escaped."""
    from schwifty.checksum import algorithms
    from ..lib import SchwiftyException, frame_of
    try:
        return bool(algorithms[f"DE:{m}"].validate([acct], ""))
    except SchwiftyException:
        return False
    except Exception as e:  # noqa: BLE001
        rec.fail(f"crash|direct|{m}|{type(e).__name__}|{frame_of(e)}", "de_method_total", {"method": m, "account": acct},
                 "verdict", f"{type(e).__name__}: {e}")
        return None


_API_CALLS = [0]


def api(rec, blz, acct):
    from ..lib import BBAN, IBAN, SchwiftyException, frame_of
    bban = blz + acct
    text = "DE" + canonical_digits("DE", bban) + bban
    _API_CALLS[0] += 1
    n = _API_CALLS[0]
    if n % 3 == 0:
        # the same 18 digits are a structurally valid BBAN of other countries (CR, ME, RS, VA): judging those first
        # must not change what Germany's method says ("depends on nothing but the method and the account number")
        from ._shared import sibling_ibans
        for y, t in sibling_ibans("DE", bban):
            try:
                IBAN(t, validate_bban=True)
            except SchwiftyException:
                pass
            rec.classes["sibling-warmup"] += 1
    if n % 3 == 0:
        # the same eight digits are a bank code of other countries too (same field width): their IBANs judged first
        import random as _random
        from ._shared import field_siblings
        for y, t in field_siblings("DE", "bank_code", blz, _random.Random(n), limit=3):
            try:
                IBAN(t, validate_bban=True)
            except SchwiftyException:
                pass
            rec.classes["bank-code-sibling-warmup"] += 1
    if n % 5 == 0:
        # other ways of handing over the same IBAN with national validation requested must agree with the constructor
        verdicts = {}
        forms = {"from_bban-str": lambda: IBAN.from_bban("DE", bban, validate_bban=True),
                 "from_bban-object": lambda: IBAN.from_bban("DE", BBAN("DE", bban), validate_bban=True),
                 "validate": lambda: IBAN(text, allow_invalid=True).validate(validate_bban=True),
                 "own-object": lambda: IBAN(IBAN(text, allow_invalid=True), validate_bban=True),
                 "revalidate": lambda: IBAN(text).validate(validate_bban=True),          # validated without the flag before
                 "rewrap-validated": lambda: IBAN(IBAN(text), validate_bban=True),
                 "bban-of-validated": lambda: IBAN(text).bban.validate_national_checksum(),
                 "ctor": lambda: IBAN(text, validate_bban=True)}
        for name, fn in forms.items():
            try:
                fn()
                verdicts[name] = True
            except SchwiftyException:
                verdicts[name] = False
            except Exception as e:  # noqa: BLE001
                verdicts[name] = f"crash:{type(e).__name__}"
        rec.classes["argument-forms"] += 1
        if len(set(map(str, verdicts.values()))) != 1:
            rec.fail("api_forms_disagree|" + ",".join(sorted(k for k, v in verdicts.items() if v != verdicts["ctor"])),
                     "de_api_forms_agree", {"bank_code": blz, "account": acct, "forms": True}, verdicts["ctor"], verdicts)
    try:
        IBAN(text, validate_bban=True)
        return True
    except SchwiftyException as e:
        if type(e).__name__ != "InvalidBBANChecksum":
            rec.fail(f"api_wrong_error|{type(e).__name__}", "de_api_error_class", {"bank_code": blz, "account": acct},
                     "InvalidBBANChecksum", f"{type(e).__name__}: {e}")
        return False
    except Exception as e:  # noqa: BLE001
        rec.fail(f"crash|api|{type(e).__name__}|{frame_of(e)}", "de_api_total", {"bank_code": blz, "account": acct},
                 "verdict", f"{type(e).__name__}: {e}")
        return None


def check_method(rec, m, acct, blz=None):
    """Direct (and, when a bank code is given, public API) verdict against the reference. Returns reference verdict."""
    want = ode.ref(m, acct)
    got = direct(rec, m, acct)
    if got is not None and want is not None and got is not want:
        rec.fail(f"{m}|{'false_accept' if got else 'false_reject'}", "de_method_iff_reference",
                 {"method": m, "account": acct}, want, got)
    if blz is not None:
        g2 = api(rec, blz, acct)
        if g2 is not None and want is not None and g2 is not want:
            rec.fail(f"{m}|api|{'false_accept' if g2 else 'false_reject'}", "de_api_iff_reference",
                     {"method": m, "account": acct, "bank_code": blz}, want, g2)
        if g2 is not None and got is not None and g2 is not got:
            rec.fail(f"{m}|api_vs_direct", "de_api_dispatch", {"method": m, "account": acct, "bank_code": blz}, got, g2)
    return want


def replay(rec, case):
    if case["input"].get("origin") == "configurations":
        from ._configs import replay as _r
        return _r(rec, case)
    i = case["input"]
    st = state()
    if i.get("origin") == "cross-method":
        run_cross_sequence(rec, i["account"], [tuple(x) for x in i["sequence"]])
        return
    global api
    plain_api = api

    def api(rec_, blz, acct):      # noqa: F811 - every replayed call includes the sibling warm-up and the argument forms
        _API_CALLS[0] = 14
        return plain_api(rec_, blz, acct)
    if "method" in i:
        check_method(rec, i["method"], i["account"], i.get("bank_code"))
    elif "pair" in i:
        a = api(rec, i["pair"][0], i["account"])
        b = api(rec, i["pair"][1], i["account"])
        if a is not b:
            rec.fail("metamorphic", "same_method_same_verdict", i, a, b)
    else:
        check_bank(rec, st, i["bank_code"], i["account"])


def check_bank(rec, st, blz, acct):
    """Public API verdict for a bank code against the reference dispatch."""
    es = st["idx"].get(("DE", blz))
    m = es[0].get("checksum_algo") if es else None
    got = api(rec, blz, acct)
    if got is None:
        return None, m
    if m is not None and m in st.get("unreferenced", ()):
        return None, m
    if m is None or m not in st["impl"]:
        if got is not True:
            rec.fail(f"unlisted_or_unimplemented_rejected|{m}", "de_unlisted_accepted", {"bank_code": blz, "account": acct},
                     True, got)
        return True, m
    if m not in ode.METHODS:
        return None, m      # implemented by the tree, no reference here: not judged
    want = ode.ref(m, acct)
    if want is not None and got is not want:
        rec.fail(f"{m}|dispatch|{'false_accept' if got else 'false_reject'}", "de_api_iff_reference",
                 {"bank_code": blz, "account": acct, "method_of_bank": m}, want, got)
    return want, m


def sparse_accounts(max_nonzero=3):
    """every ten-digit account with at most `max_nonzero` non-zero digits (91,216 for 3): long zero runs, single digits in
    every position - where strip/shift/int() shortcuts and range special cases go wrong. Complete enumeration."""
    from itertools import combinations, product
    yield "0000000000"
    for k in range(1, max_nonzero + 1):
        for pos in combinations(range(10), k):
            for digs in product("123456789", repeat=k):
                a = ["0"] * 10
                for p_, d_ in zip(pos, digs):
                    a[p_] = d_
                yield "".join(a)


def accounts(rng, n_uniform, n_short, n_bodies):
    for _ in range(n_uniform):
        yield "uniform", f"{rng.randrange(10 ** 10):010d}"
    for _ in range(n_short):
        k = rng.randrange(1, 10)
        yield "short", f"{rng.randrange(10 ** (k - 1), 10 ** k):010d}"
    for b in BOUNDARIES:
        for d in (-2, -1, 0, 1, 2):
            if 0 <= b + d < 10 ** 10:
                yield "boundary", f"{b + d:010d}"
    # the interior of every documented special range, evenly (a gap in a hand-written list of sub-ranges lies inside)
    for lo_, hi_ in RANGES:
        n_in = max(200, n_uniform // 2)
        step = max(1, (hi_ - lo_) // n_in)
        for x in range(lo_, hi_ + 1, step):
            yield "range-interior", f"{min(hi_, x + rng.randrange(step)):010d}"
    for _ in range(n_bodies):
        k = rng.choice((10, 10, 10, 9, 8, 7, 6))
        body = f"{rng.randrange(10 ** k):010d}"
        for p in (6, 7, 9):
            for dgt in "0123456789":
                yield "directed", body[:p] + dgt + body[p + 1:]


def shard_method(arg):
    m, seed, tier, lo, hi = arg
    import random
    rng = random.Random(f"{seed}:C07:{m}:{lo}")
    rec = Rec()
    st = state()
    banks = st["by_method"].get(m, [])
    quick = tier == "quick"
    k = 0
    if lo == "sparse":
        src = (("sparse", a) for a in sparse_accounts(2 if quick else 3))
    elif lo is None:
        src = accounts(rng, *( (3000, 1500, 500) if quick else (250000, 80000, 12000) ))
    else:
        src = (("range", f"{n:010d}") for n in range(lo, hi))
    for cls, acct in src:
        blz = None
        if banks and (cls not in ("range", "sparse") or k % 16 == 0) and k % (4 if quick else 8) == 0:
            blz = banks[(k // 4) % len(banks)]
        k += 1
        want = check_method(rec, m, acct, blz)
        rec.evals += 1
        if want is None:
            rec.excluded[f"reference-undecided-{m}"] += 1
            rec.classes[f"{m}-undecided"] += 1
            continue
        rec.classes[f"{m}-{'accept' if want else 'reject'}"] += 1
        rem = ode.remainder_info(m, acct)
        if cls in ("boundary", "directed", "range", "sparse", "range-interior") or rem in (0, 1, 10):
            rec.nt.add(hash((m, acct)))
        if cls == "directed" and rec.classes[f"{m}-{'accept' if want else 'reject'}"] <= 1:
            rec.sample(f"{m}", {"method": m, "account": acct, "reference": want, "via_bank": blz})
    if lo == "sparse":
        rec.exhaustive.append("every account with at most 2 (thorough: 3) non-zero digits, for every method")
        rec.classes["sparse-accounts"] += k
    elif lo is not None:
        rec.exhaustive.append("all accounts 0..999,999 for every method")
    return rec


def shard_banks(arg):
    codes, seed, tier = arg
    import random
    rng = random.Random(f"{seed}:C07:banks:{codes[0]}")
    rec = Rec()
    st = state()
    n = 4 if tier == "quick" else 40
    for blz in codes:
        for j in range(n):
            if j % 2 == 0:
                acct = f"{rng.randrange(10 ** 10):010d}"
            else:
                acct = f"{rng.randrange(10 ** rng.randrange(3, 10)):010d}"
            want, m = check_bank(rec, st, blz, acct)
            impl = m in st["impl"]
            rec.case("bank-implemented" if impl else "bank-unimplemented-method",
                     (blz, acct) if (want is not None and impl) else None,
                     {"bank_code": blz, "method": m, "account": acct, "reference": want} if j == 0 and blz.endswith("00") else None)
    # unlisted bank codes: always accepted
    for _ in range(len(codes) // 4 + 1):
        blz = f"{rng.randrange(10 ** 8):08d}"
        if ("DE", blz) in st["idx"]:
            continue
        acct = f"{rng.randrange(10 ** 10):010d}"
        check_bank(rec, st, blz, acct)
        rec.case("bank-unlisted", (blz, acct), {"bank_code": blz, "account": acct})
    rec.exhaustive.append("every German bank code of the bundled registry (dispatch)")
    return rec


def shard_meta(arg):
    m, seed, tier = arg
    import random
    rng = random.Random(f"{seed}:C07:meta:{m}")
    rec = Rec()
    st = state()
    banks = st["by_method"].get(m, [])
    if len(banks) < 2:
        return rec
    for _ in range(60 if tier == "quick" else 3000):
        a, b = rng.sample(banks, 2)
        acct = f"{rng.randrange(10 ** rng.choice((10, 10, 8, 6))):010d}"
        va, vb = api(rec, a, acct), api(rec, b, acct)
        if va is not vb:
            rec.fail(f"{m}|metamorphic", "same_method_same_verdict", {"pair": [a, b], "account": acct, "method": m}, va, vb)
        rec.case("metamorphic-pair", (m, acct, a, b), {"pair": [a, b], "account": acct, "method": m})
    return rec


def shard_literals(arg):
    """Bank codes and account numbers taken from the literals of the source (vlib/dims.py: literal_dictionary): every method
    with every account literal, every fitting (bank code, account) pair through the public API, and every account literal
    with a sample of the listed banks of every method."""
    seed, tier = arg
    import random
    from .. import dims
    rng = random.Random(f"{seed}:C07:literals")
    rec = Rec()
    st = state()
    lits = [x for x in dims.literal_dictionary() if x.isdigit()]
    accts = sorted({x.rjust(10, "0") for x in lits if len(x) <= 10})
    blzs = sorted({x.rjust(8, "0") for x in lits if len(x) <= 8})
    for m in st["impl"]:
        for a in accts:
            want = check_method(rec, m, a)
            rec.case("source-literals-method", (m, a) if want is not None else None)
        banks = st["by_method"].get(m, [])
        for blz in (rng.sample(banks, min(3, len(banks))) if banks else []):
            for a in accts:
                check_bank(rec, st, blz, a)
                rec.case("source-literals-bank", (blz, a))
    for blz in blzs:
        for a in accts:
            check_bank(rec, st, blz, a)
            rec.case("source-literals-pair", (blz, a))
    return rec


def shard_cross_method(arg):
    """The same account number judged by every method in one process, in a shuffled order (and again in the reverse order):
    what one method worked out for these digits is no other method's business ('depends on nothing but the method and the
    account number')."""
    i, seed, tier = arg
    import random
    rng = random.Random(f"{seed}:C07:cross:{i}")
    rec = Rec()
    st = state()
    for _ in range(12 if tier == "quick" else 400):
        acct = f"{rng.randrange(10 ** rng.choice((10, 10, 10, 8, 6))):010d}"
        order = list(st["impl"])
        rng.shuffle(order)
        seq = [(m, rng.choice(st["by_method"][m]) if (st["by_method"].get(m) and rng.random() < 0.3) else None) for m in order + order[::-1]]
        run_cross_sequence(rec, acct, seq)
    return rec


def run_cross_sequence(rec, acct, seq):
    sub = Rec()
    for m, blz in seq:
        want = check_method(sub, m, acct, blz)
        sub.case("cross-method", (m, acct) if want is not None else None)
    fails, sub.fails, sub.fail_counts = sub.fails, {}, type(sub.fail_counts)()
    rec.merge(sub)
    for key, case in fails.items():
        # the witness is the whole sequence (the single call is right in a fresh process)
        rec.fail(key + "|cross-method", case["relation"],
                 {"origin": "cross-method", "account": acct, "sequence": [list(x) for x in seq], "failing_call": case["input"]},
                 case["expected"], case["observed"])


def run(ctx):
    import vlib.lib  # noqa: F401
    from ._shared import selftest_de
    ctx.extra["oracle_selftest"] = selftest_de()
    st = state()
    missing = [m for m in st["impl"] if m not in ode.METHODS]
    if missing:
        # a method the tree implements but this harness has no reference for: not judged (reported, never a pass by silence)
        ctx.rec.notes.append(f"methods implemented by the tree without a reference here, NOT judged: {missing}")
        ctx.rec.excluded["methods without reference: " + ",".join(missing)] += 1
        st["impl"] = [m for m in st["impl"] if m in ode.METHODS]
        st["unreferenced"] = set(missing)
    ctx.rule = ("(i) every implemented method x accounts: uniform 10-digit, short (1-9 significant digits), +-2 around documented "
                "boundaries, 'directed' = random body x all 10 values of each candidate check position (7, 8, 10) so that "
                "remainders 0/1/10 are hit per body [thorough: plus the complete range 0..999,999]; judged through the "
                "method object and, for methods used by a registry bank, through IBAN(..., validate_bban=True). (ii) every "
                "German bank code of the registry x accounts through the public API, plus unlisted bank codes and banks of "
                "unimplemented methods. (iii) pairs of banks sharing a method, same account. Non-trivial = reference verdict "
                "defined and (directed/boundary/range case or main remainder in {0,1,10}); distinct by (method, account).")
    ctx.explanation = ("Oracle: O-de (vlib/oracles/de.py), a three-valued re-implementation of the Bundesbank descriptions; "
                       "dispatch by the first registry entry of the bank code read directly from the JSON files.")
    ctx.assumptions = ["methods 13, 63, 68 (<6 digits), 76: sub-account / remainder-10 regions are undecided and tolerated",
                       "a method key present in the tree without a reference is a harness error, not a pass"]
    shards = [(m, ctx.seed, ctx.tier, None, None) for m in st["impl"]]
    shards += [(m, ctx.seed, ctx.tier, "sparse", None) for m in st["impl"]]
    if not ctx.quick:
        for m in st["impl"]:
            for lo in range(0, 1000000, 250000):
                shards.append((m, ctx.seed, ctx.tier, lo, lo + 250000))
    ctx.pmap(shard_method, shards)
    codes = st["de_codes"]
    chunk = 120
    ctx.pmap(shard_banks, [(codes[i:i + chunk], ctx.seed, ctx.tier) for i in range(0, len(codes), chunk)])
    ctx.pmap(shard_meta, [(m, ctx.seed, ctx.tier) for m in st["impl"]])
    ctx.pmap(shard_literals, [(ctx.seed, ctx.tier)])
    ctx.pmap(shard_cross_method, [(i, ctx.seed, ctx.tier) for i in range(16)])
    need = []
    for m in st["impl"]:
        need.append(f"{m}-accept")
        if m != "09":
            need.append(f"{m}-reject")
    from ._configs import stage as _config_stage
    _config_stage(ctx, ['german'])
    ctx.require_classes("cross-method", "bank-code-sibling-warmup", "source-literals-method", "source-literals-bank", "source-literals-pair", "sparse-accounts", "sibling-warmup", "argument-forms", "bank-implemented", "bank-unimplemented-method", "bank-unlisted", "metamorphic-pair", *need)
    ctx.extra["per_method"] = {m: {"accept": ctx.rec.classes.get(f"{m}-accept", 0), "reject": ctx.rec.classes.get(f"{m}-reject", 0),
                                   "undecided": ctx.rec.classes.get(f"{m}-undecided", 0)} for m in st["impl"]}
    ctx.extra["implemented_methods"] = len(st["impl"])
    ctx.extra["german_bank_codes"] = len(codes)
