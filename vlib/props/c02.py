"""C02 IBAN check digits are computed correctly, uniquely and canonically (DESIGN 7/C02)."""
from __future__ import annotations

from ..oracles.core import ALNUM, ASCII_DIGITS, canonical_digits, num
from ..runner import HarnessError, Rec
from ._shared import gen, oracle

ALIAS_ADJACENT = ("02", "03", "97", "98")   # canonical digits whose +-97 aliases 99, 100(n/a), 00, 01 are two-digit


def check_bban(rec: Rec, cc: str, bban: str, origin="gen"):
    """All relations of C02 for one (country, BBAN). Returns (canonical digits, had_alias)."""
    from ..lib import IBAN, SchwiftyException, frame_of
    want = canonical_digits(cc, bban)
    inp = {"cc": cc, "bban": bban, "origin": origin}
    try:
        obj = IBAN.from_bban(cc, bban)
    except SchwiftyException as e:
        rec.fail(f"from_bban_rejects|{type(e).__name__}", "from_bban_valid", inp, cc + want + bban,
                 f"{type(e).__name__}: {e}")
        obj = None
    except Exception as e:  # noqa: BLE001
        rec.fail(f"crash|{type(e).__name__}|{frame_of(e)}", "from_bban_valid", inp, cc + want + bban,
                 f"{type(e).__name__}: {e}")
        obj = None
    if obj is not None:
        got = obj.checksum_digits
        if str(obj) != cc + want + bban or got != want or not ("02" <= got <= "98"):
            rec.fail("from_bban_wrong_digits", "from_bban_digits", inp, cc + want + bban, str(obj))
        else:
            try:
                ok = obj.validate() is True and obj.is_valid is True
            except Exception as e:  # noqa: BLE001
                ok = f"{type(e).__name__}: {e}"
            if ok is not True:
                rec.fail("from_bban_not_valid", "from_bban_valid", inp, True, ok)
    # the same BBAN text handed over as a BBAN object - of this country, and of other countries whose structure it fits as well:
    # the digits are those of the country from_bban is asked for. Declining such an object is tolerated (the statement speaks
    # of BBANs, not of objects parsed for another country) - unless the complaint is about check digits, which the caller never
    # supplied: then the library computed them for the wrong country and tripped over its own result
    if origin in ("min", "max", "letters", "digits", "random") or origin.startswith("alias-adjacent"):
        from ..dims import sibling_countries
        from ..lib import BBAN
        for y in [cc] + sibling_countries(oracle(), cc, bban)[:3]:
            inp2 = {**inp, "as_bban_object_of": y}
            try:
                got = str(IBAN.from_bban(cc, BBAN(y, bban)))
            except SchwiftyException as e:
                if y == cc or type(e).__name__ in ("InvalidChecksumDigits", "InvalidBBANChecksum"):
                    rec.fail(f"from_bban_object_rejects|{'own' if y == cc else 'foreign'}|{type(e).__name__}", "from_bban_valid", inp2,
                             cc + want + bban, f"{type(e).__name__}: {e}")
                else:
                    rec.excluded["from_bban declines a BBAN object of another country (tolerated)"] += 1
                continue
            except Exception as e:  # noqa: BLE001
                rec.fail(f"crash|{type(e).__name__}|{frame_of(e)}", "from_bban_valid", inp2, cc + want + bban, f"{type(e).__name__}: {e}")
                continue
            if got != cc + want + bban:
                rec.fail(f"from_bban_object_wrong_digits|{'own' if y == cc else 'foreign'}", "from_bban_digits", inp2, cc + want + bban, got)
            rec.classes["bban-object-" + ("own" if y == cc else "foreign")] += 1
    accepted = []
    had_alias = False
    for d in range(100):
        dd = f"{d:02d}"
        t = cc + dd + bban
        if dd != want and num(bban + cc + dd) % 97 == 1:
            had_alias = True
        try:
            IBAN(t)
            accepted.append(dd)
        except SchwiftyException:
            pass
        except Exception as e:  # noqa: BLE001
            rec.fail(f"crash|{type(e).__name__}|{frame_of(e)}", "pair_total", {**inp, "digits": dd}, "verdict",
                     f"{type(e).__name__}: {e}")
    # the same texts handed over as a str subclass / as an unvalidated IBAN object (argument forms, vlib/dims.py)
    from .. import dims
    w = int(want)
    probe = {want, "00", "01", "99", f"{(w + 1) % 100:02d}"} | {f"{a:02d}" for a in (w - 97, w + 97) if 0 <= a <= 99}
    for dd in sorted(probe):
        for form, v in dims.arg_forms(cc + dd + bban, IBAN):
            try:
                IBAN(v)
                ok = True
            except SchwiftyException:
                ok = False
            except Exception as e:  # noqa: BLE001
                rec.fail(f"crash|{type(e).__name__}|{frame_of(e)}", "pair_total", {**inp, "digits": dd, "form": form}, "verdict",
                         f"{type(e).__name__}: {e}")
                continue
            if ok != (dd == want):
                rec.fail(f"pairs|argform-{form}|{'alias_accepted' if ok else 'canonical_rejected'}", "exactly_one_pair",
                         {**inp, "digits": dd, "form": form}, dd == want, ok)
    if accepted != [want]:
        extra = [a for a in accepted if a != want]
        kind = ("alias_accepted:" + ",".join(extra)) if extra else "canonical_rejected"
        rec.fail(f"pairs|{kind if not extra else 'alias_accepted'}", "exactly_one_pair", inp, [want], accepted)
    return want, had_alias


def replay(rec, case):
    if case["input"].get("origin") == "configurations":
        from ._configs import replay as _r
        return _r(rec, case)
    i = case["input"]
    if i.get("origin") == "size-extremes":
        size_extremes(rec, case.get("seed", 1), case.get("tier", "quick"))
        return
    check_bban(rec, i["cc"], i["bban"], i.get("origin", "replay"))


def solve_for_digits(cc, bban, classes, target, rng, keep_kind=False):
    """Change trailing characters of the BBAN (within their classes) until the canonical digits equal `target`.
    keep_kind: a letter is replaced by a letter and a digit by a digit (the numeric form keeps its length)."""
    from ..gens import _CLASS_CHARS
    idx = list(range(len(bban)))
    b = list(bban)
    for _ in range(4000):
        i = rng.choice(idx[-6:])
        pool = _CLASS_CHARS[classes[i]]
        if keep_kind:
            pool = [c for c in pool if c.isalpha() == b[i].isalpha()] or pool
        b[i] = rng.choice(pool)
        s = "".join(b)
        if canonical_digits(cc, s) == target:
            return s
    return None


def shard(arg):
    cc, seed, tier = arg
    import random
    rng = random.Random(f"{seed}:C02:{cc}")
    rec = Rec()
    g = gen()
    n = 12 if tier == "quick" else 250
    variants = ["min", "max", "letters", "digits"] + ["random"] * n
    seen = set()
    for v in variants:
        b = g.bban(cc, rng, v)
        if b in seen:
            continue
        seen.add(b)
        want, alias = check_bban(rec, cc, b, v)
        rec.evals += 100
        rec.classes["pairs"] += 100
        rec.classes["bban"] += 1
        rec.nt.add(hash((cc, b)))
        if len(seen) == 1:
            rec.sample("bban", {"cc": cc, "bban": b, "canonical": want})
    # alias-adjacent canonical digits: 97/98 make 00/01 congruent aliases, 02 makes 99 one
    cl = g.classes(cc)
    for target in ALIAS_ADJACENT:
        for _ in range(1 if tier == "quick" else 4):
            b = solve_for_digits(cc, g.bban(cc, rng), cl, target, rng)
            if b is None:
                rec.notes.append(f"{cc}: no BBAN with canonical digits {target} found")
                continue
            want, alias = check_bban(rec, cc, b, f"alias-adjacent:{target}")
            if want != target:
                raise HarnessError("solver inconsistency")
            rec.evals += 100
            rec.classes["pairs"] += 100
            rec.classes["bban-alias-adjacent"] += 1
            if alias:
                rec.classes["bban-with-congruent-alias"] += 1
            rec.nt.add(hash((cc, b)))
            rec.sample("bban-alias-adjacent", {"cc": cc, "bban": b, "canonical": want, "congruent_alias_exists": alias})
    # the same four targets on bases at the extremes of the numeric form's length (letters only / digits only / all-max): a
    # computation that treats long numeric forms separately has its own edge remainders
    for variant in ("letters", "digits", "max"):
        for target in ALIAS_ADJACENT:
            b = solve_for_digits(cc, g.bban(cc, rng, variant), cl, target, rng, keep_kind=True)
            if b is None:
                continue
            check_bban(rec, cc, b, f"alias-adjacent:{target}:{variant}")
            rec.evals += 100
            rec.classes["bban-alias-adjacent-on-extreme-base"] += 1
            rec.nt.add(hash((cc, b)))
    # BBANs that are themselves valid IBANs of another country (an input that is a valid instance of the neighbouring type)
    from ..gens import nested_iban_bbans
    for s_, b in nested_iban_bbans(g, cc, rng, per=2 if tier == "quick" else 10):
        check_bban(rec, cc, b, f"nested-iban:{s_}")
        rec.evals += 100
        rec.classes["bban-is-valid-iban-of-other-country"] += 1
        rec.nt.add(hash((cc, b)))
    rec.exhaustive.append("all 100 check-digit pairs for every generated (country, BBAN)")
    # BBANs whose letter fields spell dictionary words
    from .. import dims
    words = [w for w in dims.token_dictionary() if w.isalpha()] + ["NONE", "NULL", "TRUE", "TEST", "NAN", "INF"]
    for tok, b in g.token_bbans(cc, rng, words[:40 if tier == "quick" else 120]):
        check_bban(rec, cc, b, f"token-in-bban:{tok}")
        rec.evals += 100
        rec.classes["bban-token"] += 1
        rec.nt.add(hash((cc, b)))
    # block-collision BBANs (equal weighted contributions of two aligned k-digit blocks, every k)
    from ..lib import IBAN as _I, SchwiftyException as _S
    for k, b in g.block_collision_bbans(cc, rng, per_k=3 if tier == "quick" else 12):
        want = canonical_digits(cc, b)
        inp = {"cc": cc, "bban": b, "origin": f"block-collision:k={k}"}
        try:
            got = str(_I.from_bban(cc, b))
        except _S as e:
            got = f"{type(e).__name__}: {e}"
        except Exception as e:  # noqa: BLE001
            got = f"crash {type(e).__name__}: {e}"
        if got != cc + want + b:
            rec.fail("from_bban_rejects|block-collision" if ":" in got else "from_bban_wrong_digits|block-collision", "from_bban_valid", inp,
                     cc + want + b, got)
        try:
            _I(cc + want + b)
        except _S as e:
            rec.fail("pairs|block-collision|canonical_rejected", "exactly_one_pair", {**inp, "digits": want}, True, f"{type(e).__name__}")
        rec.evals += 2
        rec.classes["bban-block-collision"] += 1
        rec.nt.add(hash((cc, b)))
    # structured BBANs (prefix / zero run / suffix): assembling gives the reference digits and a valid IBAN; the canonical pair
    # and its neighbours are probed instead of all 100 (the sweep above covers the pair dimension)
    from ..lib import IBAN, SchwiftyException
    for a, z, b in g.zero_run_bbans(cc, rng, fills=3 if tier == "quick" else 24):
        want = canonical_digits(cc, b)
        inp = {"cc": cc, "bban": b, "origin": f"zero-run:{a}+{z}"}
        try:
            got = str(IBAN.from_bban(cc, b))
        except SchwiftyException as e:
            got = f"{type(e).__name__}: {e}"
        except Exception as e:  # noqa: BLE001
            got = f"crash {type(e).__name__}: {e}"
        if got != cc + want + b:
            rec.fail("from_bban_rejects|zero-run" if ":" in got else "from_bban_wrong_digits|zero-run", "from_bban_valid", inp, cc + want + b, got)
        w = int(want)
        for dd in (want, f"{(w + 1) % 100:02d}", f"{(w + 96) % 100:02d}"):
            try:
                IBAN(cc + dd + b)
                ok = True
            except SchwiftyException:
                ok = False
            if ok != (dd == want):
                rec.fail("pairs|zero-run|" + ("alias_accepted" if ok else "canonical_rejected"), "exactly_one_pair", {**inp, "digits": dd},
                         dd == want, ok)
        rec.evals += 4
        rec.classes["bban-zero-run"] += 1
        rec.nt.add(hash((cc, b)))
    return rec


SIZE_EXTREMES = {
    # 34 characters is the longest IBAN ISO 13616 allows (the longest bundled one has 33); a registry update or overlay may add one
    "ZV": {"bban_spec": "4!a6!n20!c", "bban_length": 30, "positions": {"bank_code": [0, 4], "branch_code": [4, 10], "account_code": [10, 30]}},
    "ZT": {"bban_spec": "30!n", "bban_length": 30, "positions": {"bank_code": [0, 8], "account_code": [8, 30]}},
    "ZS": {"bban_spec": "29!c", "bban_length": 29, "positions": {"bank_code": [0, 4], "account_code": [4, 29]}},
    "ZU": {"bban_spec": "2!n3!n", "bban_length": 5, "positions": {"bank_code": [0, 2], "account_code": [2, 5]}},
}


def size_extremes(rec: Rec, seed, tier):
    """Countries of extreme length added by an overlay file (package copy): from_bban and the 100 pairs as above."""
    import random
    from .. import gens as gens_mod
    from ..engines.pkgcopy import PackageCopy
    from ..oracles.core import IbanOracle, load_table, repo_root
    rng = random.Random(f"{seed}:C02:sizes")
    overlay = {cc: {"country": cc, "in_sepa_zone": False, "iban_spec": cc + "2!n" + spec["bban_spec"],
                    "iban_length": spec["bban_length"] + 4, **spec} for cc, spec in SIZE_EXTREMES.items()}
    with PackageCopy(repo_root(), iban_files={"zz_sizes.json": overlay}, keep_bundled_bank=True) as pc:
        eff = IbanOracle(load_table(pc.iban_dir))
        g = gens_mod.Gen(eff)
        cases = [(cc, g.bban(cc, rng, v)) for cc in SIZE_EXTREMES for v in ["min", "max", "letters", "random"] + ["random"] * (0 if tier == "quick" else 20)]
        ops = []
        for cc, b in cases:
            ops.append({"op": "from_bban", "cc": cc, "bban": b})
            ops += [{"op": "iban_verdict", "text": f"{cc}{d:02d}{b}"} for d in range(100)]
        res = pc.query(ops)
        if isinstance(res, dict):
            rec.fail("copy_import_fails|size-extremes", "from_bban_valid", {"cc": "ZV", "bban": "", "origin": "size-extremes"}, "imports",
                     res["import_error"][-300:])
            return
        for k, (cc, b) in enumerate(cases):
            want = canonical_digits(cc, b)
            inp = {"cc": cc, "bban": b, "origin": "size-extremes", "layout": SIZE_EXTREMES[cc]}
            r = res[k * 101]
            if r.get("ok") != cc + want + b:
                rec.fail("from_bban_rejects|size-extremes" if "ok" not in r else "from_bban_wrong_digits|size-extremes", "from_bban_valid", inp,
                         cc + want + b, r)
            accepted = [f"{d:02d}" for d in range(100) if "ok" in res[k * 101 + 1 + d]]
            if accepted != [want]:
                rec.fail("pairs|size-extremes|" + ("alias_accepted" if len(accepted) > 1 else "canonical_rejected"), "exactly_one_pair", inp,
                         [want], accepted)
            rec.evals += 100
            rec.classes["bban-size-extreme"] += 1
            rec.nt.add(hash((cc, b)))


def run(ctx):
    o = oracle()
    import vlib.lib  # noqa: F401
    ctx.rule = ("For every bundled country: structure-conforming BBANs (all-min, all-max, letters-only, digits-only, "
                "random) plus BBANs solved so that the canonical digits are 02, 03, 97, 98 (so that the congruent "
                "aliases 99, 00, 01 exist); countries of 9, 33 and 34 characters added by an overlay (package copy); for each, from_bban and all 100 pairs. Non-trivial = every distinct "
                "(country, BBAN) (each sweep contains the accepted pair); evaluations counts pairs.")
    ctx.explanation = ("Oracle: own mod 97-10 (98 - num(bban+cc+'00') mod 97). Relations: from_bban(cc, bban) is valid, "
                       "equals cc+canonical+bban, digits in 02..98; of the 100 texts cc+dd+bban exactly the canonical one "
                       "is accepted by IBAN().")
    ctx.assumptions = ["BBAN sampling per country is random; the pair dimension is exhaustive"]
    ctx.pmap(shard, [(cc, ctx.seed, ctx.tier) for cc in o.countries()])
    size_extremes(ctx.rec, ctx.seed, ctx.tier)
    from ._configs import stage as _config_stage
    _config_stage(ctx, ['assemble'])
    ctx.require_classes("bban-is-valid-iban-of-other-country", "bban-object-own", "bban-object-foreign", "bban-size-extreme", "bban", "bban-alias-adjacent", "bban-alias-adjacent-on-extreme-base", "bban-with-congruent-alias", "bban-zero-run", "bban-token", "bban-block-collision")
