"""C15 Results depend only on arguments and bundled data, never on call history (DESIGN 7/C15)."""
from __future__ import annotations

import json

from .. import calls
from ..oracles import de as ode
from ..oracles import reg as oreg
from ..oracles.core import canonical_digits
from ..runner import HarnessError, Rec
from ._shared import gen, oracle

# ------------------------------------------------------------------------------------------------ registry snapshot

_SNAP = {}


def registry_snapshot():
    return calls.registry_snapshot()


def registry_unchanged():
    return calls.registry_diff(_SNAP["registry"])


# ------------------------------------------------------------------------------------------------ call pool

def build_pool(seed):
    import random
    from .c14 import directed_accounts, de_iban, state as c14_state
    from .c08 import conforming, field_info
    rng = random.Random(f"{seed}:C15:pool")
    g, o = gen(), oracle()
    st = c14_state()
    pool, creates = [], []
    ccs = o.countries()
    for _ in range(40):
        cc = rng.choice(ccs)
        t = g.iban(cc, rng)
        bad = t[:6] + rng.choice("-x0A") + t[7:]
        short = t[:-2]
        for text in (t, bad, short, t.lower(), " ".join(t[i:i + 4] for i in range(0, len(t), 4))):
            pool.append({"op": "iban", "text": text})
            pool.append({"op": "iban", "text": text, "validate_bban": True})
            pool.append({"op": "iban", "text": text, "allow_invalid": True})
            creates.append({"kind": "iban", "text": text})
        creates.append({"kind": "bban", "cc": cc, "text": t[4:]})
    for cc in ("BE", "FR", "IT", "ES", "NO", "PL", "CZ", "IS", "FI", "PT", "BA", "EE"):
        for _ in range(3):
            b = g.natvalid_bban(cc, rng)
            pool.append({"op": "iban", "text": g.iban_of(cc, b), "validate_bban": True})
            b2 = g.bban(cc, rng)
            pool.append({"op": "iban", "text": g.iban_of(cc, b2), "validate_bban": True})
            creates.append({"kind": "iban", "text": g.iban_of(cc, b2)})
    for m in st["impl"]:
        for a in directed_accounts(rng, m):
            pool.append({"op": "de", "method": m, "account": a})
            if st["by_method"].get(m):
                t = de_iban(rng.choice(st["by_method"][m]), a)
                pool.append({"op": "iban", "text": t, "validate_bban": True})
                creates.append({"kind": "iban", "text": t})
        # inputs that raise inside compute (short / non-numeric accounts) - the failing calls of the statement
        pool.append({"op": "de", "method": m, "account": "123"})
        pool.append({"op": "de", "method": m, "account": "12345678AB"})
        pool.append({"op": "de", "method": m, "account": directed_accounts(rng, m)[0], "how": "compute"})
    for t in ("GENODEM1GLS", "GENODEM1", "genodem1 gls", "GENODEM1GL", "GENOXXM1GLS", "1234DEWWXXX", "G-NODEM1GLS", "MARKDEF1100"):
        for strict in (False, True):
            pool.append({"op": "bic", "text": t, "strict": strict})
        pool.append({"op": "bic", "text": t, "allow_invalid": True})
        creates.append({"kind": "bic", "text": t})
    for _ in range(30):
        cc = rng.choice(["DE", "BE", "ES", "FR", "IT", "GB", "NO", "PL", "NL", "XX", "BA", "MU"])
        if cc in o.table and o.positions(cc):
            fi = field_info(cc)
            vals = {k: conforming(rng, fi[k][2], rng.randrange(0, len(fi[k][2]) + 3)) for k in fi}
        else:
            vals = {"bank_code": "1", "branch_code": "", "account_code": "2"}
        pool.append({"op": "generate", "cc": cc, "bank_code": vals["bank_code"], "account_code": vals["account_code"],
                     "branch_code": vals["branch_code"]})
        pool.append({"op": "generate", "cc": cc, "bank_code": vals["bank_code"] + "-", "account_code": vals["account_code"]})
    for _ in range(30):
        cc = rng.choice(["DE", "PL", "SI", "NO", "FR", "", "GB", "IT", "BE", "ES"])
        pool.append({"op": "random", "cc": cc, "seed": rng.randrange(1000), "use_registry": rng.random() < 0.6,
                     "cls": rng.choice(["IBAN", "IBAN", "BBAN"])})
    keys = st["keys"]
    for _ in range(30):
        cc, code = rng.choice(keys)
        pool.append({"op": "from_bank_code", "cc": cc, "code": code})
        pool.append({"op": "candidates", "cc": cc, "code": code})
        pool.append({"op": "from_bank_code", "cc": cc, "code": code[:-1]})
    # objects of unknown countries and degenerate texts (only possible without validation): their accessors raise or return ''
    for text in ("XX001234567890123456", "QQ12ABCD", "", "D", "DE", "12345678", "ZZ99" + "9" * 30):
        creates.append({"kind": "iban", "text": text})
        creates.append({"kind": "bban", "cc": text[:2], "text": text[4:]})
        creates.append({"kind": "bic", "text": text[:11]})
    for cc in ccs:
        creates.append({"kind": "bic", "text": "ABCD" + cc + "2A"})
        pool.append({"op": "bic", "text": "ABCD" + cc + "2AXXX"})
        if rng.random() < 0.35:
            creates.append({"kind": "iban", "text": g.iban(cc, rng)})
    # countries without published positions, explicitly (their table entries are the ones lacking keys)
    for cc in [c for c in ccs if not o.positions(c)]:
        t = g.iban(cc, rng)
        creates.append({"kind": "iban", "text": t})
        creates.append({"kind": "bban", "cc": cc, "text": t[4:]})
        pool += [{"op": "iban", "text": t}, {"op": "generate", "cc": cc, "bank_code": "", "account_code": ""},
                 {"op": "generate", "cc": cc, "bank_code": "1", "account_code": "2"},
                 {"op": "random", "cc": cc, "seed": 1, "use_registry": False}, {"op": "random", "cc": cc, "seed": 1, "cls": "BBAN"}]
    # ---- groups: calls routed to the same algorithm object / bank key / country, for "burst" histories ------------------
    groups = []
    for cc in [c for c in ccs if not o.positions(c)]:
        t = g.iban(cc, rng)
        c = {"kind": "iban", "text": t}
        groups.append([{"op": "generate", "cc": cc, "bank_code": "", "account_code": ""},
                       {"op": "random", "cc": cc, "seed": 3, "use_registry": True},
                       {"op": "random", "cc": cc, "seed": 3, "cls": "BBAN", "use_registry": False},
                       {"op": "obj", "create": c, "what": "snapshot"}, {"op": "obj", "create": c, "what": "bic"},
                       {"op": "obj", "create": c, "what": "bank"}, {"op": "iban", "text": t, "validate_bban": True}])
    for text in ("XX001234567890123456", "", "D"):
        for c in ({"kind": "iban", "text": text}, {"kind": "bban", "cc": text[:2], "text": text[4:]}):
            groups.append([{"op": "obj", "create": c, "what": w_} for w_ in public_properties(c["kind"]) if w_ not in ("pickle",)])
    # per country: calls of every class that mention the country (BIC with that country code, IBAN, BBAN, their properties)
    for cc in ccs:
        t = g.iban(cc, rng)
        ci, cb, cn = {"kind": "iban", "text": t}, {"kind": "bic", "text": "ABCD" + cc + "2A"}, {"kind": "bban", "cc": cc, "text": t[4:]}
        grp = [{"op": "bic", "text": "ABCD" + cc + "2A"}, {"op": "bic", "text": "ABCD" + cc + "2AXXX", "strict": True},
               {"op": "iban", "text": t}, {"op": "iban", "text": t, "validate_bban": True}]
        for c in (ci, cb, cn):
            for what in ("snapshot", "country", "country_code", "spec", "is_valid", "bic", "bank", "in_sepa_zone", "exists", "type"):
                if what in public_properties(c["kind"]):
                    grp.append({"op": "obj", "create": c, "what": what})
        groups.append(grp)
    # the same BBAN text under several countries (each judged by its own rules, in any order), incl. argument forms
    from ._shared import sibling_ibans
    from ..oracles import nat as onat
    n_sib = 0
    for cc in ["DE", "DE", "DE", "ES", "FR", "PT", "MR", "FI", "BA", "MK", "TN", "EE", "IT", "DK", "CM", "CV", "DZ", "AT", "GB"]:
        if cc == "DE":
            m = rng.choice([x for x in st["impl"] if st["by_method"].get(x)])
            b = rng.choice(st["by_method"][m]) + rng.choice(directed_accounts(rng, m))
        else:
            b = g.bban(cc, rng, "digits")
        sibs = sibling_ibans(cc, b, limit=4)
        if not sibs:
            continue
        n_sib += 1
        grp = []
        for y, t in [(cc, g.iban_of(cc, b))] + sibs:
            grp.append({"op": "iban", "text": t, "validate_bban": True})
            grp.append({"op": "from_bban", "cc": y, "bban": b, "validate_bban": True})
            grp.append({"op": "from_bban", "cc": y, "bban": b, "validate_bban": True, "as_object": True})
            grp.append({"op": "obj", "create": {"kind": "iban", "text": t}, "what": "snapshot"})
            grp.append({"op": "obj", "create": {"kind": "bban", "cc": y, "text": b}, "what": "national"})
            grp.append({"op": "obj", "create": {"kind": "iban", "text": t}, "what": "rewrap_bban", "arg": {"cc": sibs[0][0]}})
            grp.append({"op": "iban_of_object", "text": t, "validate_bban": False})
        groups.append(grp)
    if n_sib == 0:
        raise HarnessError("no sibling-country groups could be built")
    for m in st["impl"]:
        grp = []
        accts = []
        for _ in range(3):
            accts += directed_accounts(rng, m)
        for a in accts:
            grp.append({"op": "de", "method": m, "account": a})
            if st["by_method"].get(m):
                grp.append({"op": "iban", "text": de_iban(rng.choice(st["by_method"][m]), a), "validate_bban": True})
        grp.append({"op": "de", "method": m, "account": "123"})
        grp.append({"op": "de", "method": m, "account": accts[0], "how": "compute"})
        groups.append(grp)
        # accounts whose weighted sum degenerates (one non-zero digit at each of the ten places, and none at all), each right
        # after an account at an edge remainder: a shortcut for "nothing to sum" must leave no state of the previous call behind
        grp = []
        for a in accts[:len(accts) // 3]:
            for k in range(10):
                sparse = "0" * k + rng.choice("123456789") + "0" * (9 - k)
                grp.append({"op": "de", "method": m, "account": a})
                grp.append({"op": "de", "method": m, "account": sparse})
            grp.append({"op": "de", "method": m, "account": a})
            grp.append({"op": "de", "method": m, "account": "0000000000"})
        groups.append(grp)
    # the same account number under every method (shuffled): one method's work on these digits is no other method's business
    from ..oracles import de as ode_
    for gi in range(12):
        # an account that some method accepts (so that a borrowed intermediate result shows as a changed verdict)
        acct = f"{rng.randrange(10 ** rng.choice((10, 10, 8))):010d}"
        mb = rng.choice(st["impl"])
        for dgt in "0123456789":
            cand = acct[:9] + dgt
            if mb in ode_.METHODS and ode_.ref(mb, cand) is True:
                acct = cand
                break
        order = list(st["impl"])
        rng.shuffle(order)
        grp = []
        for m in order:
            grp.append({"op": "de", "method": m, "account": acct})
            if st["by_method"].get(m) and rng.random() < 0.3:
                grp.append({"op": "iban", "text": de_iban(rng.choice(st["by_method"][m]), acct), "validate_bban": True})
        groups.append(grp)
    # the same list of components handed to every registered national algorithm object in turn (whatever each makes of it - a
    # value or an exception): what one of them worked out for this text is not another one's answer
    try:
        from schwifty.checksum import algorithms as _algos
        algo_keys = sorted(k for k in _algos if not k.startswith("DE:"))
    except Exception:  # noqa: BLE001 - refactored away: nothing to hand components to
        algo_keys = []
    for cc in ("FR", "MR", "BE", "PT", "IT", "ES", "NO", "FI"):
        if not algo_keys or cc not in o.table:
            continue
        b = g.natvalid_bban(cc, rng) or g.bban(cc, rng)
        comps = [o.component(cc, b, k) for k in ("bank_code", "branch_code", "account_code")]
        comps = [c for c in comps if c]
        order = list(algo_keys)
        rng.shuffle(order)
        grp = []
        for k in order + order[::-1]:
            grp.append({"op": "algo", "key": k, "components": comps})
            grp.append({"op": "algo", "key": k, "components": comps, "how": "validate", "expected": "00"})
        groups.append(grp)
    from .c14 import NATIONAL, national_calls
    for cc in NATIONAL:
        grp = national_calls(rng, cc) + national_calls(rng, cc)
        grp.append({"op": "random", "cc": cc, "seed": rng.randrange(1000), "use_registry": True})
        groups.append(grp)
    # the same bank-code text as a bank code of other countries (same field width), judged with national validation, before and
    # after this country's own IBANs of that bank
    from ._shared import field_siblings
    n_fs = 0
    for _ in range(12):
        m = rng.choice([x for x in st["impl"] if st["by_method"].get(x)])
        blz = rng.choice(st["by_method"][m])
        sibs = field_siblings("DE", "bank_code", blz, rng, limit=2)
        if not sibs:
            continue
        n_fs += 1
        grp = [{"op": "iban", "text": t_, "validate_bban": True} for _, t_ in sibs]
        for a in directed_accounts(rng, m)[:2]:
            grp.append({"op": "iban", "text": de_iban(blz, a), "validate_bban": True})
        grp += [{"op": "iban", "text": t_, "validate_bban": True} for _, t_ in sibs]
        groups.append(grp)
    if n_fs == 0:
        raise HarnessError("no bank-code sibling groups could be built")
    # one object asked many questions in a row: the stricter question (national check digits / SWIFT compliance), which fails,
    # between the plain ones - the answers to the plain questions on that same object stay what they are for a fresh object
    n_reuse = 0
    for cc in list(NATIONAL) + ["DE"]:
        for _ in range(40):
            b = g.bban(cc, rng, "digits") if cc != "DE" else rng.choice(st["by_method"][rng.choice([x for x in st["impl"] if st["by_method"].get(x)])]) + \
                "".join(rng.choice("0123456789") for _ in range(10))
            t = g.iban_of(cc, b)
            if onat.ref(cc, b, o.positions(cc)) is False if cc != "DE" else True:
                break
        c = {"kind": "iban", "text": t}
        grp = []
        for what, arg in (("is_valid", None), ("validate", None), ("validate", {"validate_bban": True}), ("is_valid", None),
                          ("validate", None), ("national", None), ("is_valid", None), ("validate", {"validate_bban": False}),
                          ("validate", {"validate_bban": True}), ("snapshot", None), ("bic", None), ("validate", None)):
            d = {"op": "obj", "create": c, "what": what}
            if arg is not None:
                d["arg"] = arg
            grp.append(d)
        groups.append(grp)
        n_reuse += 1
    for text in ("1234DEFF", "A1B2FR2AXXX", "GENODEM1GLS", "GENOXXM1GLS"):
        c = {"kind": "bic", "text": text}
        grp = []
        for what, arg in (("is_valid", None), ("validate", None), ("validate", {"enforce_swift_compliance": True}), ("is_valid", None),
                          ("validate", None), ("validate", {"enforce_swift_compliance": False}), ("snapshot", None), ("exists", None),
                          ("validate", {"enforce_swift_compliance": True}), ("is_valid", None)):
            d = {"op": "obj", "create": c, "what": what}
            if arg is not None:
                d["arg"] = arg
            grp.append(d)
        groups.append(grp)
    # bank keys whose registry entries are interesting (several entries, primary not first, several BICs) + ordinary ones
    from .c12 import place_key, real, ref_candidates
    R = real()
    odd = [k for k, es in sorted(R["idx"].items()) if len(es) >= 2 and k[0] in o.table
           and (not es[0].get("primary") or len(set(ref_candidates(es))) >= 2)]
    # every interesting key whose spelling has variants (letters: lower case; any: padded) is among the chosen ones
    cased = [k for k in odd if k[1].lower() != k[1]]
    chosen = list(dict.fromkeys(cased[:30] + rng.sample(odd, min(40, len(odd))) + rng.sample(keys, 10)))
    for cc, code in chosen:
        t = place_key(o, g, cc, code, rng)
        grp = [{"op": "from_bank_code", "cc": cc, "code": code}, {"op": "candidates", "cc": cc, "code": code}]
        # other spellings of the same key before and after the listed one (whatever the library makes of them - in a fresh
        # process and after the listed spelling was looked up)
        for sp in dict.fromkeys([code.lower(), code.upper(), " " + code, code + " ", code.lower()]):
            if sp != code:
                grp += [{"op": "from_bank_code", "cc": cc, "code": sp}, {"op": "candidates", "cc": cc, "code": sp}]
        grp.append({"op": "from_bank_code", "cc": cc, "code": code})
        if t:
            c = {"kind": "iban", "text": t}
            for what in ("bank", "bic", "bank_name", "bank_short_name", "snapshot"):
                grp.append({"op": "obj", "create": c, "what": what})
            grp.append({"op": "iban", "text": t, "validate_bban": True})
        for b in ref_candidates(R["idx"][(cc, code)])[:2]:
            cb = {"kind": "bic", "text": b}
            for what in ("domestic_bank_codes", "exists", "bank_names"):
                grp.append({"op": "obj", "create": cb, "what": what})
        groups.append(grp)
    return pool, creates, groups


WHATS_FOR = {
    "iban": ["is_valid", "validate", "snapshot", "bic", "bank", "bank_name", "formatted", "copy", "deepcopy", "pickle", "national",
             "numeric", "in_sepa_zone"],
    "bic": ["is_valid", "validate", "snapshot", "formatted", "copy", "deepcopy", "pickle", "domestic_bank_codes", "exists", "type",
            "bank_names", "country_code"],
    "bban": ["snapshot", "bic", "bank", "copy", "deepcopy", "pickle", "national", "bank_code", "account_code"],
}


def public_properties(kind):
    """Every public property of the class (by introspection: a property added later is read as well) plus the operations."""
    from ..lib import BBAN, BIC, IBAN
    cls = {"iban": IBAN, "bic": BIC, "bban": BBAN}[kind]
    props = sorted(n for n in dir(cls) if not n.startswith("_") and isinstance(getattr(cls, n, None), property))
    extra = {"iban": ["validate", "snapshot", "copy", "deepcopy", "pickle", "national"],
             "bic": ["validate", "snapshot", "copy", "deepcopy", "pickle"],
             "bban": ["snapshot", "copy", "deepcopy", "pickle", "national"]}[kind]
    return props + extra


# ------------------------------------------------------------------------------------------------ the machine

_SHRINK = {"deadline": None, "budget_s": 25}
PLOG = []        # every step this process has executed since it started (histories of earlier examples included): a failing
                 # outcome may depend on any of them, so the recorded history is the whole log, minimised afterwards


def _raise_for_shrinking():
    """Failures are recorded in rec (smallest history wins). Raising lets Hypothesis shrink the history; after a time
    budget the harness stops raising, which ends the shrink phase (its hard cap would otherwise be five minutes)."""
    import time
    now = time.time()
    if _SHRINK["deadline"] is None:
        _SHRINK["deadline"] = now + _SHRINK["budget_s"]
    if now < _SHRINK["deadline"]:
        raise AssertionError("property violated (recorded)")


def make_machine(rec: Rec, zyg, pool, creates, groups, check_registry_every_step):
    from hypothesis import strategies as st
    from hypothesis.stateful import Bundle, RuleBasedStateMachine, invariant, rule

    class History(RuleBasedStateMachine):
        objs = Bundle("objs")

        def __init__(self):
            super().__init__()
            self.history = []
            self.stored = []
            self.by_create = {}
            self.failed_before = False
            self.nontrivial = False

        def _compare(self, desc, obj=None):
            got = calls.outcome(desc, obj)
            want = zyg.reference(desc)
            self.history.append(desc)
            PLOG.append(desc)
            rec.evals += 1
            if got[0] == "exc":
                self.failed_before = True
            elif self.failed_before:
                self.nontrivial = True
            if got != want:
                what = desc["op"] + (":" + desc.get("what", "") if desc["op"] == "obj" else "")
                rec.fail(f"history_dependent|{what}", "outcome_equals_fresh_process", {"history": list(PLOG)}, want, got)
                _raise_for_shrinking()

        @rule(target=objs, c=st.sampled_from(creates))
        def create(self, c):
            obj = calls.create(c)
            snap = calls.norm_out(calls.apply_obj(obj, "snapshot"))
            self.stored.append((c, obj, snap))
            self.history.append({"op": "create", "create": c})
            PLOG.append({"op": "create", "create": c})
            return len(self.stored) - 1

        @rule(d=st.sampled_from(pool))
        def call(self, d):
            self._compare(d)

        @rule(gi=st.integers(0, len(groups) - 1), idxs=st.lists(st.integers(0, 40), min_size=2, max_size=6))
        def burst(self, gi, idxs):
            """several calls routed to the same algorithm object / bank key / country in a row (any order, repetitions)"""
            grp = groups[gi]
            for j in idxs:
                d = grp[j % len(grp)]
                obj = None
                if d["op"] == "obj":
                    # operate on a stored object (created once per history), so that the snapshot invariant watches it
                    key = json.dumps(d["create"], sort_keys=True)
                    if key not in self.by_create:
                        o_ = calls.create(d["create"])
                        self.by_create[key] = o_
                        self.stored.append((d["create"], o_, calls.norm_out(calls.apply_obj(o_, "snapshot"))))
                        self.history.append({"op": "create", "create": d["create"]})
                        PLOG.append({"op": "create", "create": d["create"]})
                    obj = self.by_create[key]
                self._compare(d, obj)
                self.stored_objects_unchanged()
            rec.classes["burst"] += 1

        @rule(i=objs, k=st.integers(0, 50), flag=st.booleans())
        def obj_op(self, i, k, flag):
            c, obj, _ = self.stored[i]
            ws = public_properties(c["kind"])
            what = ws[k % len(ws)]
            d = {"op": "obj", "create": c, "what": what}
            if what == "validate" and flag:
                d["arg"] = {"validate_bban": True} if c["kind"] == "iban" else {"enforce_swift_compliance": True}
            self._compare(d, obj)

        @invariant()
        def stored_objects_unchanged(self):
            for c, obj, snap in self.stored:
                now = calls.norm_out(calls.apply_obj(obj, "snapshot"))
                if now != snap:
                    rec.fail("stored_object_mutated", "objects_immutable", {"history": list(PLOG), "object": c}, snap, now)
                    _raise_for_shrinking()
            if check_registry_every_step and len(self.history) % 8 == 0:
                self._registry()

        def _registry(self):
            bad = registry_unchanged()
            if bad:
                rec.fail(f"registry_modified|{bad}", "registries_unmodified", {"history": list(PLOG)}, "unchanged", bad)
                _SNAP["registry"] = registry_snapshot()    # re-baseline so that shrinking sees only new modifications
                _raise_for_shrinking()

        def teardown(self):
            rec.classes["sequence"] += 1
            if self.nontrivial:
                rec.classes["sequence-with-failing-call-followed-by-other-calls"] += 1
                rec.nt.add(hash(json.dumps(self.history, sort_keys=True)))
            if len(self.history) >= 2 and rec.classes["sequence"] <= 2:
                rec.sample("sequence", {"steps": self.history[:12], "length": len(self.history)})
            self._registry()

    return History


def history_fails(zyg, history):
    """Does the history, run in a fork of the pristine zygote, deviate from fresh-process outcomes / modify state?
    Returns a short reason or None."""
    r = zyg.history(history)
    for d, got in zip(history, r["outcomes"]):
        if d["op"] == "create":
            continue
        want = zyg.reference(d)
        if got != want:
            return "outcome"
    if r["snapshots_changed"]:
        return "object"
    if r["registry"]:
        return "registry:" + r["registry"]
    return None


def minimise(zyg, history, budget_s):
    """ddmin over the steps of a failing history (each trial runs in a fork of the pristine zygote)."""
    import time
    t_end = time.time() + budget_s
    why = history_fails(zyg, history)
    if why is None:
        return history, None          # needs state from earlier histories of this process: keep as recorded
    n = 2
    while len(history) >= 2 and time.time() < t_end:
        chunk = max(1, len(history) // n)
        reduced = False
        for i in range(0, len(history), chunk):
            cand = history[:i] + history[i + chunk:]
            if cand and history_fails(zyg, cand) is not None:
                history = cand
                n = max(n - 1, 2)
                reduced = True
                break
            if time.time() > t_end:
                break
        if not reduced:
            if chunk == 1:
                break
            n = min(n * 2, len(history))
    return history, why


def shard(arg):
    i, seed, tier = arg
    import hypothesis
    from hypothesis import HealthCheck, settings
    from hypothesis.stateful import run_state_machine_as_test
    from ..engines.zygote import Zygote
    rec = Rec()
    pool, creates, groups = build_pool(seed)
    _SNAP.setdefault("registry", registry_snapshot())
    zyg = Zygote()
    try:
        quick = tier == "quick"
        machine = make_machine(rec, zyg, pool, creates, groups, check_registry_every_step=not quick)
        from hypothesis import Phase
        # no Hypothesis shrink phase (hard five-minute cap, no budget control): failing histories are minimised by ddmin below
        s = settings(max_examples=20 if quick else 160, stateful_step_count=40 if quick else 80, deadline=None, database=None,
                     report_multiple_bugs=False, suppress_health_check=list(HealthCheck), print_blob=False,
                     derandomize=False, phases=[Phase.generate])
        _SHRINK["deadline"] = None
        _SHRINK["budget_s"] = 25 if quick else 240
        try:
            run_state_machine_as_test(hypothesis.seed(seed * 1000 + i)(machine), settings=s)
        except AssertionError:
            pass                                   # recorded in rec with the (shrunk) history
        except hypothesis.errors.HypothesisException as e:
            if not rec.fails:
                raise HarnessError(f"hypothesis: {type(e).__name__}: {e}")
        except BaseException as e:  # noqa: BLE001 - e.g. exception groups from the shrinker after the budget ended
            if not rec.fails or isinstance(e, (KeyboardInterrupt, SystemExit)):
                raise
        for key, case in list(rec.fails.items()):
            hist = case["input"].get("history")
            if hist:
                small, why = minimise(zyg, hist, 20 if quick else 120)
                case["input"]["history"] = small
                case["input"]["reproduces_from_pristine_process"] = why
                case["_size"] = len(json.dumps(small))
        rec.classes["fresh-process-references"] += zyg.requests
    finally:
        zyg.close()
    return rec


def shard_groups(arg):
    """Every group (calls about one algorithm object / bank key / country / BBAN text) is run completely, in order, twice in a
    row in a fork of the pristine zygote; every outcome must equal the fresh-process outcome of that call."""
    i, seed, tier = arg
    from ..engines.zygote import Zygote
    rec = Rec()
    _, _, groups = build_pool(seed)
    zyg = Zygote()
    try:
        for gi in range(i, len(groups), 16):
            grp = groups[gi]
            hist = []
            seen = set()
            for d in grp + grp:
                if d["op"] == "obj":
                    k_ = json.dumps(d["create"], sort_keys=True)
                    if k_ not in seen:
                        seen.add(k_)
                        hist.append({"op": "create", "create": d["create"]})
                hist.append(d)
            why = history_fails(zyg, hist)
            rec.evals += len(hist)
            rec.classes["group-run-twice"] += 1
            rec.nt.add(hash(("group", gi, seed)))
            if why:
                small, why2 = minimise(zyg, hist, 10 if tier == "quick" else 60)
                last = small[-1]
                what = last["op"] + (":" + last.get("what", "") if last["op"] == "obj" else "")
                rec.fail(f"history_dependent|{what}|group", "outcome_equals_fresh_process",
                         {"history": small, "reproduces_from_pristine_process": why2}, "as in a fresh process", why)
        rec.sample("group-run-twice", {"groups": len(groups), "rule": "each group in order, twice, in a pristine fork"})
    finally:
        zyg.close()
    return rec


def shard_long(arg):
    """Long histories over thousands of *distinct* arguments (bounded caches only misbehave when they are full): the same
    multiset of calls is run in two different orders, each in its own fork of the pristine zygote; the outcome of a call may
    not depend on the order. Repeated failing calls are sprinkled in. A sample of calls is anchored to fresh-process outcomes."""
    i, seed, tier = arg
    import random
    from ..engines.zygote import Zygote
    from .c12 import real
    rng = random.Random(f"{seed}:C15:long:{i}")
    rec = Rec()
    g, o = gen(), oracle()
    R = real()
    keys = sorted(R["idx"])
    n = 6000 if tier == "quick" else 40000
    kind = i % 4
    calls_ = []
    if kind in (0, 1):       # lookups over distinct registry keys, with repeated failing lookups in between
        for cc, code in rng.sample(keys, min(n, len(keys))):
            calls_.append({"op": "from_bank_code", "cc": cc, "code": code} if kind == 0 or rng.random() < 0.5 else
                          {"op": "candidates", "cc": cc, "code": code})
        for _ in range(25):
            cc, code = rng.choice(keys)
            bad = {"op": "from_bank_code", "cc": cc, "code": code + "9"}
            at = rng.randrange(len(calls_) // 3)
            calls_[at:at] = [bad, bad]
    elif kind == 2:          # distinct IBAN validations (valid and one edit away), a few repeated
        ccs = o.countries()
        for k in range(n):
            t = g.iban(rng.choice(ccs), rng)
            if k % 3 == 0:
                j = rng.randrange(4, len(t))
                t = t[:j] + rng.choice("0123456789") + t[j + 1:]
            calls_.append({"op": "iban", "text": t, "validate_bban": k % 5 == 0})
        calls_ += rng.sample(calls_, 200)
    else:                    # distinct generations / random draws / BIC constructions
        from .c08 import conforming, field_info
        for k in range(n // 2):
            cc = rng.choice(["DE", "GB", "FR", "ES", "IT", "NO", "PL", "BE", "NL", "AT"])
            fi = field_info(cc)
            calls_.append({"op": "generate", "cc": cc, "bank_code": conforming(rng, fi["bank_code"][2], len(fi["bank_code"][2])),
                           "account_code": conforming(rng, fi["account_code"][2], rng.randrange(1, len(fi["account_code"][2]) + 1)),
                           "branch_code": conforming(rng, fi["branch_code"][2], len(fi["branch_code"][2]))})
            calls_.append({"op": "random", "cc": cc, "seed": k, "use_registry": k % 2 == 0})
    order2 = list(calls_)
    rng.shuffle(order2)
    zyg = Zygote()
    try:
        r1 = zyg.history(calls_)
        r2 = zyg.history(order2)
        by1, by2 = {}, {}
        for d, out in zip(calls_, r1["outcomes"]):
            by1.setdefault(json.dumps(d, sort_keys=True), []).append(out)
        for d, out in zip(order2, r2["outcomes"]):
            by2.setdefault(json.dumps(d, sort_keys=True), []).append(out)
        bad = None
        for k_, outs in by1.items():
            allouts = outs + by2[k_]
            if any(x != allouts[0] for x in allouts):
                bad = json.loads(k_)
                break
        rec.evals += len(calls_) * 2
        rec.classes["long-history-calls"] += len(calls_) * 2
        rec.classes[f"long-history-kind-{kind}"] += 1
        rec.nt.add(hash(("long", i, seed)))
        rec.sample("long-history", {"calls": len(calls_), "distinct": len(by1), "first": calls_[:2], "orders": 2})
        if r1["registry"] or r2["registry"]:
            rec.fail(f"registry_modified|{r1['registry'] or r2['registry']}", "registries_unmodified", {"history": calls_[:50], "long": True},
                     "unchanged", r1["registry"] or r2["registry"])
        if bad is not None:
            # which order is wrong? anchor to the fresh-process outcome; then cut the history after the first deviating call
            want = zyg.reference(bad)
            hist = None
            for seq, res in ((calls_, r1), (order2, r2)):
                for n_, (d, out) in enumerate(zip(seq, res["outcomes"])):
                    if d == bad and out != want:
                        hist = seq[:n_ + 1]
                        break
                if hist:
                    break
            hist = hist or calls_
            small, why = minimise(zyg, hist, 25 if tier == "quick" else 120)
            rec.fail(f"history_dependent|{bad['op']}|long-history", "outcome_equals_fresh_process",
                     {"history": small, "reproduces_from_pristine_process": why, "full_length": len(hist)}, want, "differs by order")
        for d in rng.sample(calls_, 40):
            if zyg.reference(d) != by1[json.dumps(d, sort_keys=True)][0]:
                rec.fail(f"history_dependent|{d['op']}|long-history-anchor", "outcome_equals_fresh_process",
                         {"history": calls_[:calls_.index(d) + 1]}, zyg.reference(d), by1[json.dumps(d, sort_keys=True)][0])
                break
    finally:
        zyg.close()
    return rec


def replay(rec, case):
    from ..engines.zygote import Zygote
    zyg = Zygote()
    try:
        hist = case["input"]["history"]
        why = history_fails(zyg, hist)
        if why:
            rec.fail("history_dependent|replay", "outcome_equals_fresh_process", {"history": hist}, "as in a fresh process", why)
    finally:
        zyg.close()


def run(ctx):
    import vlib.lib  # noqa: F401
    _SNAP["registry"] = registry_snapshot()     # taken before any library call of this process
    ctx.rule = ("Hypothesis RuleBasedStateMachine histories: rules draw from a seeded pool of call descriptors (IBAN/BIC "
                "construction valid/invalid/each flag, direct Bundesbank method calls incl. inputs that raise inside compute, "
                "generate incl. failing, seeded random, lookups both directions) and operate on stored objects (validate, "
                "is_valid, accessors, lookups, copy, deepcopy, pickle, national check). Non-trivial = history containing a failing "
                "call followed by other calls; distinct by history.")
    ctx.explanation = ("Oracle: every step's outcome (value or exception type+message) equals the outcome of the same call "
                       "evaluated as the first call of a fresh process (fork of a zygote that imported the library and called "
                       "nothing). Invariants: stored objects' snapshot (compact, country, components) unchanged after every step; "
                       "registry._registry deep-equals its import-time snapshot at the end of every history (thorough: every step).")
    ctx.assumptions = ["fresh process = fork of an interpreter that has imported schwifty and made no call",
                       "call pool is finite per seed (memoised references); histories are unbounded combinations of it"]
    ctx.pmap(shard, [(i, ctx.seed, ctx.tier) for i in range(16)])
    ctx.pmap(shard_long, [(i, ctx.seed, ctx.tier) for i in range(8 if ctx.quick else 16)])
    ctx.pmap(shard_groups, [(i, ctx.seed, ctx.tier) for i in range(16)])
    ctx.require_classes("sequence", "sequence-with-failing-call-followed-by-other-calls", "fresh-process-references", "burst", "group-run-twice", "long-history-calls", "long-history-kind-0", "long-history-kind-2")
