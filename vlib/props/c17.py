"""C17 The bundled country and bank data are internally consistent (DESIGN 7/C17)."""
from __future__ import annotations

import copy
import json

from ..oracles import bic as obic
from ..oracles import nat as onat
from ..oracles import reg as oreg
from ..oracles.core import COMPONENTS, IbanOracle, load_table, parse_structure
from ..runner import HarnessError, Rec
from .c12 import place_key

_CLS = {"n": set("0123456789"), "a": set("ABCDEFGHIJKLMNOPQRSTUVWXYZ"), "c": set("0123456789ABCDEFGHIJKLMNOPQRSTUVWXYZ"),
        "e": set(" ")}


# ------------------------------------------------------------------------------------------------ pure data checks

def check_country(rec: Rec, cc, spec):
    inp = {"country": cc, "spec": {k: v for k, v in spec.items() if k != "regex"}}
    try:
        toks = parse_structure(spec["bban_spec"])
    except (ValueError, KeyError, TypeError) as e:
        rec.fail("structure_unparsable", "structure_parses", inp, "n!c tokens", str(e))
        return
    n_max = sum(hi for _, lo, hi in toks)
    n_min = sum(lo for _, lo, hi in toks)
    if n_max != spec.get("bban_length") or n_min != spec.get("bban_length"):
        # "describes exactly its stated BBAN length": the shortest and the longest BBAN the structure admits
        rec.fail("structure_length_vs_bban_length", "structure_describes_bban_length", inp, spec.get("bban_length"), [n_min, n_max])
    if spec.get("iban_length") != (spec.get("bban_length") or 0) + 4:
        rec.fail("iban_length_not_bban_plus_4", "iban_length", inp, (spec.get("bban_length") or 0) + 4, spec.get("iban_length"))
    if not isinstance(spec.get("iban_length"), int) or spec["iban_length"] > 34:
        rec.fail("iban_length_over_34", "iban_length", inp, "<= 34", spec.get("iban_length"))
    if isinstance(spec.get("country"), str) and spec["country"] != cc:
        rec.fail("country_key_mismatch", "country_key", inp, cc, spec.get("country"))
    pos = spec.get("positions", {})
    spans = []
    for k, rng in pos.items():
        if k not in COMPONENTS:
            rec.fail("unknown_component_name", "positions_named", inp, list(COMPONENTS), k)
            continue
        if (not isinstance(rng, list) or len(rng) != 2 or not all(isinstance(x, int) for x in rng)
                or not (0 <= rng[0] <= rng[1] <= (spec.get("bban_length") or 0))):
            rec.fail("position_out_of_bounds", "positions_inside", inp, f"0 <= start <= end <= {spec.get('bban_length')}", {k: rng})
            continue
        if rng[1] > rng[0]:
            spans.append((rng[0], rng[1], k))
    spans.sort()
    for a, b in zip(spans, spans[1:]):
        if a[1] > b[0]:
            rec.fail("positions_overlap", "positions_disjoint", inp, "disjoint", [a, b])
    for c in spec.get("bic_lookup_components", []):
        if c not in pos:
            rec.fail("lookup_component_undefined", "lookup_defined", inp, "defined position", c)


def lookup_shape(spec):
    """(total width, per-position class letters) of the bank-identifying field(s), or None."""
    try:
        toks = parse_structure(spec["bban_spec"])
    except Exception:  # noqa: BLE001
        return None
    cl = "".join(c * hi for c, lo, hi in toks)
    pos = spec.get("positions", {})
    out = ""
    for c in spec.get("bic_lookup_components", ["bank_code"]):
        if c not in pos:
            return None
        a, e = pos[c]
        out += cl[a:e]
    return out


def check_bank_entry(rec: Rec, table, e, n):
    inp = {"entry": e, "index": n}
    cc = e.get("country_code")
    if cc not in table:
        rec.fail("bank_country_not_in_table", "bank_country", inp, "country of the table", cc)
        return False
    bic = e.get("bic")
    if bic not in ("", None) and not (isinstance(bic, str) and obic.accept_norm(bic) and bic == bic.upper().strip()):
        rec.fail("bank_bic_invalid", "bank_bic", inp, "empty or ISO 9362 valid", bic)
    code = e.get("bank_code")
    if code in ("", None):
        return False
    shape = lookup_shape(table[cc])
    if shape is None:
        rec.fail("bank_code_no_lookup_field", "bank_code_fits", inp, "lookup field", None)
        return False
    if not isinstance(code, str) or len(code) != len(shape):
        rec.fail(f"bank_code_length|{cc}", "bank_code_fits", inp, f"length {len(shape)}", code)
        return False
    if any(ch not in _CLS[k] for ch, k in zip(code, shape)):
        rec.fail(f"bank_code_class|{cc}", "bank_code_fits", inp, shape, code)
        return False
    return True


def check_key_consistency(rec: Rec, banks):
    """Rows that share a (country, bank code) key describe one bank: they must agree on the Bundesbank method, otherwise
    "the method of their bank" (C07) is not defined and the bank found again from an IBAN is not the listed one."""
    by_key = {}
    for n, e in enumerate(banks):
        if e.get("country_code") and e.get("bank_code"):
            by_key.setdefault((e["country_code"], e["bank_code"]), []).append((n, e))
    for (cc, code), rows in sorted(by_key.items()):
        methods = {e.get("checksum_algo") for _, e in rows}
        if len(methods) > 1:
            rec.fail(f"conflicting_rows|checksum_algo|{cc}", "rows_of_one_key_agree",
                     {"key": [cc, code], "rows": [{"index": n, "checksum_algo": e.get("checksum_algo"), "primary": e.get("primary"),
                                                   "name": e.get("name")} for n, e in rows]}, "one method", sorted(map(str, methods)))
    return len(by_key)


def pure_checks(rec: Rec, table, banks):
    for cc, spec in sorted(table.items()):
        check_country(rec, cc, spec)
    fits = []
    for n, e in enumerate(banks):
        fits.append(check_bank_entry(rec, table, e, n))
    check_key_consistency(rec, banks)
    return fits


# ------------------------------------------------------------------------------------------------ library-side checks

def shard_banks(arg):
    lo, hi, seed = arg
    import random
    from ..lib import IBAN, SchwiftyException
    from ._shared import gen, oracle
    rng = random.Random(f"{seed}:C17:{lo}")
    rec = Rec()
    o, g = oracle(), gen()
    banks = _DATA["banks"]
    idx = _DATA["idx"]
    for n in range(lo, hi):
        e = banks[n]
        ok = check_bank_entry(rec, o.table, e, n)
        rec.case("bank-entry" + ("" if ok else "-no-code"), ("bank", n), e if n % 5000 == 0 else None)
        if not ok:
            continue
        cc, code = e["country_code"], e["bank_code"]
        t = place_key(o, g, cc, code, rng)
        inp = {"entry": e, "index": n, "iban": t}
        if t is None:
            rec.fail(f"listed_bank_cannot_occur|{cc}", "bank_occurs_in_valid_iban", inp, "a valid IBAN with this bank code", None)
            continue
        try:
            iban = IBAN(t)
            bank = iban.bank
            bic = iban.bic
        except SchwiftyException as ex:
            rec.fail(f"constructed_iban_rejected|{cc}", "bank_occurs_in_valid_iban", inp, "accepted", f"{type(ex).__name__}: {ex}")
            continue
        except Exception as ex:  # noqa: BLE001
            rec.fail(f"crash|{type(ex).__name__}", "bank_found_again", inp, "bank", f"{type(ex).__name__}: {ex}")
            continue
        if not bank or bank.get("bank_code") != code or bank.get("country_code") != cc:
            rec.fail(f"bank_not_found_again|{cc}", "bank_found_again", inp, code, bank)
        has_bic = any(x.get("bic") for x in idx[(cc, code)])
        if has_bic and bic is None:
            rec.fail(f"bic_not_found_again|{cc}", "bank_found_again", inp, "a BIC", None)
        rec.case("bank-iban", ("iban", n), {"iban": t, "bank_code": code} if n % 5000 == 0 else None)
    return rec


def check_algorithms(rec: Rec, seed):
    """national algorithms read only fields the country defines; computing ones produce the field's width."""
    import random
    from ..lib import IBAN, SchwiftyException, frame_of
    from ._shared import gen, oracle
    try:
        from schwifty.checksum import algorithms
    except Exception as e:  # noqa: BLE001
        rec.notes.append(f"algorithm registry not importable ({e}); algorithm part skipped")
        return
    o, g = oracle(), gen()
    rng = random.Random(f"{seed}:C17:algos")
    for key, algo in sorted(algorithms.items()):
        cc, name = key.split(":", 1)
        if name != "default":
            continue
        if cc not in o.table:
            rec.notes.append(f"algorithm registered for {cc}, which is not a country of the table (never runs)")
            continue
        pos = o.positions(cc)
        accepts = [getattr(c, "value", c) for c in getattr(algo, "accepts", [])]
        inp = {"algorithm": key, "accepts": accepts, "positions": pos}
        miss = onat.missing_fields(cc, pos)
        if miss:
            # the published algorithm reads a field this country's entry does not define: the check would read '' there
            rec.fail(f"algorithm_reads_undefined_field|{cc}|{','.join(miss)}", "algorithm_reads_defined_fields", inp,
                     "fields defined: " + ",".join(onat.NEEDS[cc]), {"undefined": miss})
            continue
        undefined = [c for c in accepts if c not in pos]
        if undefined:
            rec.excluded[f"algorithm lists a component the country lacks and reads '' ({cc}: {','.join(undefined)})"] += 1
        for k in range(40):
            b = g.natvalid_bban(cc, rng) if cc in onat.LISTED else g.bban(cc, rng)
            if b is None:
                raise HarnessError(f"no nationally valid BBAN for {cc}")
            t = g.iban_of(cc, b)
            try:
                IBAN(t, validate_bban=True)
            except SchwiftyException as e:
                if cc in onat.LISTED and onat.ref(cc, b, pos) is True:
                    rec.fail(f"algorithm_rejects_reference_valid|{cc}", "algorithm_reads_defined_fields", {**inp, "iban": t},
                             "accepted", f"{type(e).__name__}: {e}")
                    break
            except Exception as e:  # noqa: BLE001
                rec.fail(f"algorithm_crashes|{cc}|{type(e).__name__}|{frame_of(e)}", "algorithm_reads_defined_fields",
                         {**inp, "iban": t}, "verdict", f"{type(e).__name__}: {e}")
                break
            # computing algorithms: produced digits have the width of the national field
            try:
                comps = [o.component(cc, b, c) for c in accepts]
                produced = algo.compute(comps)
            except SchwiftyException:
                produced = None
            except Exception as e:  # noqa: BLE001
                rec.fail(f"algorithm_compute_crashes|{cc}|{type(e).__name__}", "algorithm_reads_defined_fields", {**inp, "bban": b},
                         "digits", f"{type(e).__name__}: {e}")
                break
            if produced:
                fld = pos.get("national_checksum_digits")
                # (no national field: the digits are an intermediate of validate() and are dropped - Iceland)
                if fld and len(produced) != fld[1] - fld[0]:
                    rec.fail(f"algorithm_width|{cc}", "algorithm_field_width", {**inp, "produced": produced}, fld, len(produced))
                    break
            rec.case(f"algorithm-{cc}", (cc, b), {"algorithm": key, "bban": b} if k == 0 else None)


# ------------------------------------------------------------------------------------------------ sensitivity self-test

def corruptions(rng, table, banks, n):
    """n definitely-inconsistent variants of the data (in memory); each must be flagged by pure_checks."""
    ccs = sorted(table)
    with_pos = [c for c in ccs if len(table[c].get("positions", {})) >= 2]
    coded = [i for i, e in enumerate(banks) if e.get("bank_code") and e.get("bic")]
    kinds = ["bban_length", "iban_length", "pos_oob", "pos_overlap", "spec_token", "bank_letter", "bic_len", "bank_country",
             "bank_code_long", "lookup_undefined", "component_name"]
    for i in range(n):
        kind = kinds[i % len(kinds)]
        t2, b2 = table, banks
        if kind in ("bank_letter", "bic_len", "bank_country", "bank_code_long"):
            j = rng.choice(coded)
            b2 = list(banks)
            e = dict(banks[j])
            if kind == "bank_letter":
                shape = lookup_shape(table[e["country_code"]])
                k = rng.randrange(len(e["bank_code"]))
                e["bank_code"] = e["bank_code"][:k] + ("!" if shape and shape[k] != "n" else "Q") + e["bank_code"][k + 1:]
                if shape and shape[k] == "c":
                    e["bank_code"] = e["bank_code"][:k] + "!" + e["bank_code"][k + 1:]
            elif kind == "bic_len":
                e["bic"] = e["bic"][:-1] if len(e["bic"]) in (8, 11) else e["bic"] + "X"
            elif kind == "bank_country":
                e["country_code"] = "QQ"
            else:
                e["bank_code"] = e["bank_code"] + "0"
            b2[j] = e
            desc = {"kind": kind, "entry": e}
        else:
            cc = rng.choice(with_pos)
            t2 = dict(table)
            spec = copy.deepcopy(table[cc])
            if kind == "bban_length":
                spec["bban_length"] += rng.choice((-1, 1))
                spec["iban_length"] = spec["bban_length"] + 4
            elif kind == "iban_length":
                spec["iban_length"] += rng.choice((-1, 1, 2))
            elif kind == "pos_oob":
                k = rng.choice(sorted(spec["positions"]))
                spec["positions"][k] = [spec["positions"][k][0], spec["bban_length"] + rng.randrange(1, 4)]
            elif kind == "pos_overlap":
                ks = sorted(spec["positions"], key=lambda k: spec["positions"][k])
                a, b = ks[0], ks[1]
                if spec["positions"][a][1] - spec["positions"][a][0] < 1 or spec["positions"][b][1] - spec["positions"][b][0] < 1:
                    spec["bban_length"] += 1
                else:
                    spec["positions"][b] = [spec["positions"][a][1] - 1, spec["positions"][b][1]]
            elif kind == "spec_token":
                spec["bban_spec"] = spec["bban_spec"] + "1!n"
            elif kind == "lookup_undefined":
                spec["bic_lookup_components"] = ["bank_code", "account_type_x"]
            elif kind == "component_name":
                spec["positions"]["sort_code"] = [0, 1]
            t2[cc] = spec
            desc = {"kind": kind, "country": cc}
        yield desc, t2, b2


_DATA = {}


def replay(rec, case):
    table = load_table()
    banks = oreg.load_banks()
    pure_checks(rec, table, banks)
    if not rec.fails:
        import vlib.lib  # noqa: F401
        _DATA.update(banks=banks, idx=oreg.index_by_code(banks))
        rec.merge(shard_banks((0, len(banks), 1)))
        check_algorithms(rec, 1)


def run(ctx):
    import vlib.lib  # noqa: F401
    table = load_table()
    banks = oreg.load_banks()
    _DATA.update(banks=banks, idx=oreg.index_by_code(banks))
    ctx.rule = ("Configurations = the data the tree bundles, read directly from the JSON files: every country entry and every "
                "bank entry is one case (complete enumeration); for every bank entry with a bank code one valid IBAN is built "
                "around it by the reference and given to the library; every registered national algorithm is run on reference-"
                "built nationally valid BBANs. Each entry is a distinct non-trivial case. Sensitivity: generated corruptions of "
                "the data (in memory) must each be flagged.")
    ctx.explanation = ("Oracle: structure string length == bban_length; iban_length == bban_length+4 <= 34; positions inside the "
                       "BBAN, pairwise disjoint, named by the eight components, lookup components defined; bank entry: country in "
                       "table, BIC empty or ISO 9362 valid, bank code empty or of the lookup field's width and classes; constructed "
                       "IBAN accepted, iban.bank carries that bank code, iban.bic not None when the pair lists a BIC; national "
                       "algorithms raise nothing outside the library family on nationally valid input and computed digits have the "
                       "national field's width.")
    ctx.assumptions = ["algorithms listing a component the country lacks read '' (tolerated, listed under excluded)",
                       "speaks about the data in the tree at check time only"]
    rec = ctx.rec
    for cc, spec in sorted(table.items()):
        check_country(rec, cc, spec)
        rec.case("country-entry", ("country", cc), {"country": cc, "bban_spec": spec.get("bban_spec")} if cc in ("DE", "MU") else None)
    rec.exhaustive.append("every country entry and every bank entry of the bundled data")
    nkeys = check_key_consistency(rec, banks)
    rec.case("bank-keys-consistency", ("keys", nkeys), {"keys": nkeys})
    n = len(banks)
    chunk = max(1, n // 48)
    ctx.pmap(shard_banks, [(i, min(i + chunk, n), ctx.seed) for i in range(0, n, chunk)])
    check_algorithms(rec, ctx.seed)
    # sensitivity self-test of the pure-data part
    rng = ctx.rng("corrupt")
    flagged = total = 0
    missed = []
    for desc, t2, b2 in corruptions(rng, table, banks, ctx.pick(44, 330)):
        sub = Rec()
        for cc, spec in t2.items():
            check_country(sub, cc, spec)
        if b2 is not banks:
            j = next(i for i, (x, y) in enumerate(zip(banks, b2)) if x is not y)
            check_bank_entry(sub, t2, b2[j], j)
        total += 1
        if sub.fails:
            flagged += 1
        else:
            missed.append(desc)
    ctx.extra["corruptions_flagged"] = f"{flagged}/{total}"
    if missed:
        raise HarnessError(f"data corruptions not flagged by the consistency predicate: {missed[:3]}")
    ctx.extra["countries"] = len(table)
    ctx.extra["bank_entries"] = n
    ctx.require_classes("country-entry", "bank-entry", "bank-iban", "algorithm-BE", "algorithm-IS")
