"""Call batches for the interpreter-configuration stage (vlib/dims.py: across_configurations), by topic. Each property module
picks the topics it is about; a batch is a list of vlib.calls descriptors built from the seed."""
from __future__ import annotations

import random

from ._shared import gen, oracle


def batch(seed, topics, per=1):
    from ..oracles.core import COMPONENTS
    from .c08 import conforming, field_info
    from .c14 import NATIONAL, de_iban, directed_accounts, national_calls, state
    rng = random.Random(f"{seed}:configurations")
    o, g = oracle(), gen()
    ccs = o.countries()
    out = []
    if "parse" in topics:
        for cc in ccs:
            t = g.iban(cc, rng)
            i = rng.randrange(len(t))
            out += [{"op": "iban", "text": t}, {"op": "iban", "text": t[:i] + rng.choice("0A-x ") + t[i + 1:]},
                    {"op": "iban", "text": " ".join(t[k:k + 4] for k in range(0, len(t), 4)).lower(), "validate_bban": True}]
        out += [{"op": "iban", "text": x} for x in ("", "DE", "XX0012345678901234", "DE89370400440532013000", "de89 3704 0044 0532 0130 00\n")]
    if "assemble" in topics:
        for cc in ccs:
            b = g.bban(cc, rng)
            out += [{"op": "from_bban", "cc": cc, "bban": b}, {"op": "from_bban", "cc": cc, "bban": b, "as_object": True},
                    {"op": "obj", "create": {"kind": "iban", "text": g.iban_of(cc, b)}, "what": "snapshot"},
                    {"op": "obj", "create": {"kind": "bban", "cc": cc, "text": b}, "what": "snapshot"}]
    if "bic" in topics:
        for t in ("GENODEM1GLS", "GENODEM1", "genodem1 gls", "GENODEM1GL", "GENOXXM1GLS", "1234DEWWXXX", "G-NODEM1GLS", "MARKDEF1100", "", "A"):
            out += [{"op": "bic", "text": t}, {"op": "bic", "text": t, "strict": True}, {"op": "bic", "text": t, "allow_invalid": True},
                    {"op": "obj", "create": {"kind": "bic", "text": t}, "what": "snapshot"},
                    {"op": "obj", "create": {"kind": "bic", "text": t}, "what": "formatted"}]
        for cc in rng.sample(ccs, 20):
            out.append({"op": "bic", "text": "ABCD" + cc + "2A"})
    if "national" in topics:
        for cc in NATIONAL:
            for _ in range(per):
                out += national_calls(rng, cc)
            b = g.natvalid_bban(cc, rng) or g.bban(cc, rng)
            vals = {k: o.component(cc, b, k) for k in COMPONENTS if k != "national_checksum_digits"}
            vals = {k: v for k, v in vals.items() if v}
            out += [{"op": "from_components", "cc": cc, "values": vals},
                    {"op": "obj", "create": {"kind": "bban", "cc": cc, "text": b}, "what": "national"},
                    {"op": "random", "cc": cc, "seed": rng.randrange(1000), "use_registry": False},
                    {"op": "random", "cc": cc, "seed": rng.randrange(1000), "use_registry": True, "cls": "BBAN"}]
    if "german" in topics:
        st = state()
        for m in st["impl"]:
            for a in directed_accounts(rng, m):
                out.append({"op": "de", "method": m, "account": a})
                if st["by_method"].get(m):
                    out.append({"op": "iban", "text": de_iban(rng.choice(st["by_method"][m]), a), "validate_bban": True})
            # (no malformed accounts here: a method object handed anything but ten digits is outside its contract, and what
            # an internal precondition check raises may well differ between interpreter modes)
    if "generate" in topics:
        for cc in ccs:
            if not o.positions(cc):
                out.append({"op": "generate", "cc": cc, "bank_code": "1", "account_code": "2"})
                continue
            fi = field_info(cc)
            for short in (0, 2):
                out.append({"op": "generate", "cc": cc, "bank_code": conforming(rng, fi["bank_code"][2], len(fi["bank_code"][2])),
                            "account_code": conforming(rng, fi["account_code"][2], max(1, len(fi["account_code"][2]) - short)),
                            "branch_code": conforming(rng, fi["branch_code"][2], len(fi["branch_code"][2]))})
            out.append({"op": "generate", "cc": cc, "bank_code": conforming(rng, fi["bank_code"][2], len(fi["bank_code"][2]) + 3),
                        "account_code": "1"})
    if "lookup" in topics:
        st = state()
        for cc, code in rng.sample(st["keys"], 150):
            out += [{"op": "from_bank_code", "cc": cc, "code": code}, {"op": "candidates", "cc": cc, "code": code}]
            if rng.random() < 0.3:
                out.append({"op": "from_bank_code", "cc": cc, "code": code[:-1]})
        from .c12 import place_key
        for cc, code in rng.sample(st["keys"], 60):
            t = place_key(o, g, cc, code, rng) if cc in o.table else None
            if t:
                for what in ("bic", "bank", "bank_name"):
                    out.append({"op": "obj", "create": {"kind": "iban", "text": t}, "what": what})
    if "random" in topics:
        from .c13 import draw_pins
        for cc in ccs + [""]:
            for ur in (True, False):
                out.append({"op": "random", "cc": cc, "seed": rng.randrange(10 ** 6), "use_registry": ur,
                            "pins": draw_pins(rng, cc, 0.3) if cc else {}, "cls": rng.choice(["IBAN", "IBAN", "BBAN"])})
    if "objects" in topics:
        for cc in rng.sample(ccs, 30):
            t = g.iban(cc, rng)
            for c in ({"kind": "iban", "text": t}, {"kind": "bban", "cc": cc, "text": t[4:]}, {"kind": "bic", "text": "ABCD" + cc + "2AXXX"}):
                for what in ("copy", "deepcopy", "pickle", "snapshot"):
                    out.append({"op": "obj", "create": c, "what": what})
    return out


def stage(ctx, topics, per=1):
    """Run the batch in this process and in interpreters started with other flags; any difference is a violation."""
    from .. import dims
    descs = batch(ctx.seed, topics, per)
    dims.across_configurations(ctx.rec, descs)
    ctx.rec.exhaustive.append(f"{len(descs)} calls ({', '.join(topics)}) evaluated under python -O, python -OO, another hash seed and the C locale")
    return len(descs)


def replay(rec, case):
    from .. import dims
    dims.across_configurations(rec, case["input"]["calls"])
