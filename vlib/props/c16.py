"""C16 IBAN, BIC and BBAN are string values: equality, hashing, order and copies agree (DESIGN 7/C16)."""
from __future__ import annotations

import copy
import operator
import pickle

from .. import gens
from ..oracles.core import ALNUM, COMPONENTS, norm
from ..runner import Rec
from ._shared import gen, oracle

OPS = [("eq", operator.eq), ("ne", operator.ne), ("lt", operator.lt), ("le", operator.le), ("gt", operator.gt), ("ge", operator.ge)]


def build(desc):
    """desc = (kind, text[, cc]) -> (object, key string). kind in iban/bic/bban/str."""
    from ..lib import BBAN, BIC, IBAN
    kind, text = desc[0], desc[1]
    if kind == "str":
        return text, text
    if kind == "iban":
        return IBAN(text, allow_invalid=True), norm(text)
    if kind == "bic":
        return BIC(text, allow_invalid=True), norm(text)
    return BBAN(desc[2], text), norm(text)


def check_pair(rec: Rec, da, db, origin):
    inp = {"a": list(da), "b": list(db), "origin": origin}
    try:
        a, ka = build(da)
        b, kb = build(db)
    except Exception as e:  # noqa: BLE001
        rec.fail(f"construct|{type(e).__name__}", "construct_unvalidated", inp, "object", f"{type(e).__name__}: {e}")
        return
    if da[0] == "str" and db[0] == "str":
        return
    for name, op in OPS:
        try:
            got = op(a, b)
        except Exception as e:  # noqa: BLE001
            rec.fail(f"op_raises|{name}", "comparison_total", inp, op(ka, kb), f"{type(e).__name__}: {e}")
            continue
        if got is not op(ka, kb):
            rec.fail(f"compare|{name}|{da[0]}-{db[0]}", "compare_as_compact_strings", {**inp, "op": name}, op(ka, kb), got)
    try:
        ha, hb = hash(a), hash(b)
    except Exception as e:  # noqa: BLE001
        rec.fail("hash_raises", "hash_total", inp, "hash", f"{type(e).__name__}: {e}")
        return
    if ha != hash(ka) or hb != hash(kb):
        rec.fail(f"hash_differs_from_str|{da[0] if ha != hash(ka) else db[0]}", "hash_as_compact_string", inp, hash(ka), ha)
    if (ka == kb) and ha != hb:
        rec.fail("equal_unequal_hash", "hash_consistent", inp, "equal hashes", [ha, hb])
    # stand in for each other as dictionary keys / set members
    d = {a: "A"}
    s = {b}
    if ((b in d) is not (ka == kb)) or ((kb in d) is not (ka == kb)) or ((a in s) is not (ka == kb)) or ((ka in s) is not (ka == kb)):
        rec.fail(f"dict_set_membership|{da[0]}-{db[0]}", "dict_key_interchangeable", inp, ka == kb,
                 [b in d, kb in d, a in s, ka in s])


def check_sort(rec: Rec, descs, origin):
    inp = {"items": [list(d) for d in descs], "origin": origin}
    try:
        pairs = [build(d) for d in descs]
        got = [str(x) for x in sorted(o for o, _ in pairs)]
    except Exception as e:  # noqa: BLE001
        rec.fail(f"sort_raises|{type(e).__name__}", "sort_total", inp, "sorted", f"{type(e).__name__}: {e}")
        return
    want = sorted(k for _, k in pairs)
    if got != want:
        rec.fail("sort_order", "sort_as_compact_strings", inp, want, got)
    if len({o for o, _ in pairs}) != len({k for _, k in pairs}):
        rec.fail("set_size", "set_dedup_as_compact_strings", inp, len({k for _, k in pairs}), len({o for o, _ in pairs}))


COPIERS = [("copy", copy.copy), ("deepcopy", copy.deepcopy)] + [
    (f"pickle{p}", (lambda p: lambda o: pickle.loads(pickle.dumps(o, protocol=p)))(p)) for p in range(0, pickle.HIGHEST_PROTOCOL + 1)]


def describe(o):
    from ..lib import IBAN
    out = {"type": type(o).__name__, "str": str(o), "country_code": getattr(o, "country_code", None)}
    if type(o).__name__ in ("IBAN", "BBAN"):
        out["components"] = {k: getattr(o, k) for k in COMPONENTS} if _known(o) else None
    if isinstance(o, IBAN):
        b = getattr(o, "bban", None)
        out["bban"] = None if b is None else {"type": type(b).__name__, "str": str(b), "country_code": getattr(b, "country_code", None)}
    if type(o).__name__ == "BIC":
        out["parts"] = [o.bank_code, o.country_code, o.location_code, o.branch_code]
    return out


def _known(o):
    return getattr(o, "country_code", None) in oracle().table


_SUBCLASSES = {}


def subclasses():
    """User-defined subclasses (module level, hence picklable): a copy of a subclass instance is an instance of that subclass."""
    if not _SUBCLASSES:
        import sys
        from ..lib import BBAN, BIC, IBAN
        mod = sys.modules[__name__]
        for base in (IBAN, BIC, BBAN):
            name = "My" + base.__name__
            cls = type(name, (base,), {"__module__": __name__, "__qualname__": name})
            setattr(mod, name, cls)
            _SUBCLASSES[base.__name__.lower()] = cls
    return _SUBCLASSES


def exercise(o):
    """Use an object the way a program does before it stores or ships it: read every public property, validate it in every
    mode, hash, format and compare it. Whatever the object remembers from that must survive copying and pickling."""
    cls = type(o)
    for n in sorted(dir(cls)):
        if n.startswith("_"):
            continue
        try:
            if isinstance(getattr(cls, n, None), property) or n in ("__hash__",):
                getattr(o, n)
        except Exception:  # noqa: BLE001
            pass
    calls = [lambda: o.validate(), lambda: o.validate(validate_bban=True), lambda: o.validate(enforce_swift_compliance=True),
             lambda: o.validate_national_checksum(), lambda: o.bban.validate_national_checksum(), lambda: hash(o), lambda: str(o),
             lambda: repr(o), lambda: o == str(o), lambda: o < "M", lambda: o.bban.bank, lambda: o.bban.bic]
    for fn in calls:
        try:
            fn()
        except Exception:  # noqa: BLE001
            pass


def check_copies(rec: Rec, desc, validated, origin):
    from ..lib import BBAN, BIC, IBAN
    inp = {"obj": list(desc), "validated": validated, "origin": origin}
    kind, text = desc[0], desc[1]
    if kind.startswith("sub-"):
        S = subclasses()
        IBAN, BIC, BBAN = S["iban"], S["bic"], S["bban"]
        kind = kind[4:]
    try:
        if kind == "iban":
            o = IBAN(text) if validated else IBAN(text, allow_invalid=True)
        elif kind == "bic":
            o = BIC(text) if validated else BIC(text, allow_invalid=True)
        elif kind == "bban_of_iban":
            o = (IBAN(text) if validated else IBAN(text, allow_invalid=True)).bban
        else:
            o = BBAN(desc[2], text)
        want = describe(o)
        if origin.startswith("used"):
            exercise(o)
            if describe(o) != want:
                rec.fail(f"changed_by_use|{want['type']}", "copy_same_components", inp, want, describe(o))
    except Exception as e:  # noqa: BLE001
        rec.fail(f"construct|{type(e).__name__}", "construct", inp, "object", f"{type(e).__name__}: {e}")
        return
    for name, fn in COPIERS:
        try:
            c = fn(o)
        except Exception as e:  # noqa: BLE001
            rec.fail(f"copy_raises|{name.rstrip('0123456789')}|{want['type']}|{'valid' if validated else 'unvalidated'}|{type(e).__name__}",
                     "copy_total", {**inp, "how": name}, "equal object", f"{type(e).__name__}: {e}")
            continue
        try:
            got = describe(c)
        except Exception as e:  # noqa: BLE001
            rec.fail(f"copy_broken|{name.rstrip('0123456789')}|{want['type']}|{type(e).__name__}", "copy_same_components",
                     {**inp, "how": name}, want, f"{type(e).__name__}: {e}")
            continue
        if type(c) is not type(o) or not (c == o) or got != want:
            rec.fail(f"copy_differs|{name.rstrip('0123456789')}|{want['type']}", "copy_same_components", {**inp, "how": name}, want, got)


def replay(rec, case):
    if case["input"].get("origin") == "configurations":
        from ._configs import replay as _r
        return _r(rec, case)
    i = case["input"]
    if i.get("cross"):
        check_cross_process(rec, [tuple(d) for d in i["items"]], i.get("hashseed", "1"))
        return
    if i.get("container"):
        check_containers(rec, [tuple(d) for d in i["items"]], "replay")
        return
    if "obj" in i:
        check_copies(rec, tuple(i["obj"]), i["validated"], "used-replay" if str(i.get("origin", "")).startswith("used") else "replay")
    elif "items" in i:
        check_sort(rec, [tuple(d) for d in i["items"]], "replay")
    else:
        check_pair(rec, tuple(i["a"]), tuple(i["b"]), "replay")


def strategies():
    from hypothesis import strategies as st
    from .c01 import text_strategy as iban_texts
    from .c04 import text_strategy as bic_texts
    o = oracle()
    ccs = o.countries()
    base = st.one_of(iban_texts().map(lambda v: v[1]), bic_texts([]).map(lambda v: v[1]),
                     st.text(alphabet=st.sampled_from(ALNUM[:14] + "ab "), max_size=6))

    @st.composite
    def desc(draw, text=None):
        t = draw(base) if text is None else text
        kind = draw(st.sampled_from(["iban", "bic", "bban", "str", "str"]))
        if kind == "str":
            t = draw(st.sampled_from([t, norm(t), norm(t), t.lower()]))
            return ("str", t)
        if kind == "bban":
            return ("bban", t, draw(st.sampled_from(ccs + ["XX", ""])))
        return (kind, t)

    @st.composite
    def pair(draw):
        t = draw(base)
        a = draw(desc(text=t))
        mode = draw(st.integers(0, 5))
        if mode <= 2:
            # same underlying compact text, different class / spelling
            t2 = draw(st.sampled_from([t, t.lower(), " " + t, norm(t)]))
        elif mode == 3:
            # nearly the same text: one is the other plus / minus a short suffix (XXX, X, 0, 00 ...) - distinct strings
            suf = draw(st.sampled_from(["XXX", "X", "0", "00", "XX", "1"]))
            t2 = draw(st.sampled_from([t + suf, t[:-len(suf)] if t.endswith(suf) else t + suf, norm(t) + suf]))
        else:
            t2 = draw(base)
        b = draw(desc(text=t2))
        return ("pair", a, b)

    lists = st.lists(desc(), min_size=2, max_size=7).map(lambda l: ("sort", l))
    return st.one_of(pair(), pair(), pair(), lists)


def hyp_body(rec, v):
    if v[0] == "pair":
        _, a, b = v
        check_pair(rec, a, b, "hyp")
        same = norm(a[1]) == norm(b[1]) if (a[0] != "str" and b[0] != "str") else (
            (a[1] if a[0] == "str" else norm(a[1])) == (b[1] if b[0] == "str" else norm(b[1])))
        cross = a[0] != b[0]
        rec.case("pair-equal-cross-class" if (same and cross) else ("pair-equal" if same else "pair-different"),
                 (a, b) if (same and cross) or not same else None,
                 {"a": list(a), "b": list(b)} if (a[1] + b[1]).isascii() else None)
    else:
        check_sort(rec, v[1], "hyp")
        rec.case("sort-list", tuple(v[1]))


def check_containers(rec: Rec, descs, origin):
    """deepcopy / pickle of containers holding several objects (shared memo): every element keeps class, text, country."""
    inp = {"items": [list(d) for d in descs], "origin": origin, "container": True}
    try:
        objs = [build(d)[0] for d in descs]
        want = [describe(o) if not isinstance(o, str) or type(o) is not str else o for o in objs]
    except Exception as e:  # noqa: BLE001
        rec.fail(f"construct|{type(e).__name__}", "construct_unvalidated", inp, "objects", f"{type(e).__name__}: {e}")
        return
    for name, fn in (("deepcopy-list", lambda x: copy.deepcopy(x)), ("deepcopy-dict", lambda x: list(copy.deepcopy(dict(enumerate(x))).values())),
                     ("pickle-list", lambda x: pickle.loads(pickle.dumps(x))), ("copy-list", lambda x: copy.copy(x))):
        try:
            got_objs = fn(objs)
            got = [describe(o) if type(o) is not str else o for o in got_objs]
        except Exception as e:  # noqa: BLE001
            rec.fail(f"container_copy_raises|{name}|{type(e).__name__}", "copy_total", {**inp, "how": name}, want, f"{type(e).__name__}: {e}")
            continue
        if got != want:
            rec.fail(f"container_copy_differs|{name}", "copy_same_components", {**inp, "how": name}, want, got)


CROSS_CHILD = r"""
import pickle, sys, json
from schwifty import BBAN, BIC, IBAN
descs = json.load(sys.stdin)
out = []
for d in descs:
    kind, text = d[0], d[1]
    o = IBAN(text, allow_invalid=True) if kind == "iban" else BIC(text, allow_invalid=True) if kind == "bic" else BBAN(d[2], text)
    hash(o); o == text; {o: 1}          # ordinary use before the object is shipped
    if kind == "iban":
        hash(o.bban)
    out.append(o)
sys.stdout.buffer.write(pickle.dumps(out))
"""


def check_cross_process(rec: Rec, descs, hashseed):
    """Objects created, hashed and pickled by another interpreter (other PYTHONHASHSEED) behave as their compact string here."""
    import json as _json
    import os
    import subprocess
    import sys
    env = dict(os.environ)
    env["PYTHONHASHSEED"] = str(hashseed)
    p = subprocess.run([sys.executable, "-c", CROSS_CHILD], input=_json.dumps([list(d) for d in descs]).encode(),
                       capture_output=True, env=env, timeout=300)
    inp = {"items": [list(d) for d in descs][:6], "origin": "cross-process", "hashseed": str(hashseed), "cross": True}
    if p.returncode != 0:
        rec.fail("cross_process_child_fails", "pickle_across_processes", inp, "pickled objects", p.stderr.decode()[-300:])
        return
    try:
        objs = pickle.loads(p.stdout)
    except Exception as e:  # noqa: BLE001
        rec.fail(f"cross_process_unpickle|{type(e).__name__}", "pickle_across_processes", inp, "objects", f"{type(e).__name__}: {e}")
        return
    for d, o in zip(descs, objs):
        fresh, key = build(d)
        one = {**inp, "items": [list(d)]}
        if hash(o) != hash(key) or hash(o) != hash(fresh):
            rec.fail(f"cross_process_hash|{d[0]}", "hash_as_compact_string", one, hash(key), hash(o))
            continue
        if not (o == fresh and o == key) or (key not in {o: 1}) or (o not in {key}):
            rec.fail(f"cross_process_equality|{d[0]}", "dict_key_interchangeable", one, True, False)
            continue
        if describe(o) != describe(fresh):
            rec.fail(f"cross_process_components|{d[0]}", "copy_same_components", one, describe(fresh), describe(o))
        rec.classes["cross-process-object"] += 1


def shard_copies(arg):
    cc, seed, tier = arg
    import random
    rng = random.Random(f"{seed}:C16:{cc}")
    rec = Rec()
    g = gen()
    n = 3 if tier == "quick" else 40
    for k in range(n):
        t = g.iban(cc, rng)
        for kind in ("iban", "bban_of_iban"):
            check_copies(rec, (kind, t), True, "valid")
            rec.case(f"copy-{kind}-valid", (kind, t), {"obj": [kind, t]} if k == 0 else None)
        bad = t[:5] + rng.choice("-x!") + t[6:-1]
        for kind in ("iban", "bban_of_iban"):
            check_copies(rec, (kind, bad), False, "unvalidated")
            rec.case(f"copy-{kind}-unvalidated", (kind, bad), {"obj": [kind, bad]} if k == 0 else None)
        check_copies(rec, ("bban", t[4:], cc), False, "direct")
        rec.case("copy-bban-direct", ("bban", t[4:], cc))
        # objects that were used before they are copied (every property read, every validation mode asked): a random one and
        # one of a bank the registry lists (lookups and, for Germany, the bank's method have been resolved on it)
        used = [t]
        if k == 0:
            from .c12 import place_key, real
            keys = [kk[1] for kk in real()["idx"] if kk[0] == cc]
            for code in rng.sample(sorted(keys), min(3, len(keys))):
                tl = place_key(oracle(), g, cc, code, rng)
                if tl:
                    used.append(tl)
        for tu in used:
            for d, v in ((("iban", tu), True), (("bban_of_iban", tu), True), (("bban", tu[4:], cc), False), (("iban", tu), False)):
                check_copies(rec, d, v, "used")
                rec.case("copy-used" + ("-listed-bank" if tu != t else ""), d + (v,))
        # containers: objects with the same text but different class / country in one deepcopy (shared memo)
        from ._shared import sibling_ibans
        sib = [("bban", t[4:], y) for y, _ in sibling_ibans(cc, t[4:], limit=3)]
        items = [("bban", t[4:], cc)] + sib + [("iban", t), ("str", t), ("bic", t), ("bban", t, cc), ("iban", t)]
        check_containers(rec, items, "container")
        rec.case("copy-container" + ("-with-sibling-country" if sib else ""), ("container", t), {"items": [list(i) for i in items[:4]]} if k == 0 else None)
        check_copies(rec, ("bban", "x1", "XX"), False, "direct")
        if k < 2:
            for d in (("sub-iban", t), ("sub-bban", t[4:], cc), ("sub-bic", "GENODEM1GLS")):
                check_copies(rec, d, k == 0 and d[0] != "sub-bban", "subclass")
                rec.case("copy-subclass", d + (cc,), {"obj": list(d)} if cc == "DE" else None)
        if k == 0:
            # degenerate objects: empty / one-character texts, empty or unknown country
            for d in (("iban", ""), ("iban", "D"), ("iban", "DE"), ("bban_of_iban", ""), ("bban_of_iban", "D"), ("bban", "", ""),
                      ("bban", "X", ""), ("bban", "", cc), ("bic", ""), ("bic", "A")):
                check_copies(rec, d, False, "degenerate")
                rec.case("copy-degenerate", d + (cc,), {"obj": list(d)} if cc == "DE" else None)
    return rec


def run(ctx):
    import vlib.lib  # noqa: F401
    from ..oracles import reg as oreg
    o = oracle()
    ctx.rule = ("Pairs/lists of IBAN, BIC, BBAN objects (built without validation from near-valid, arbitrary Unicode and short "
                "texts) and plain strings, constructed so that equal compact strings across classes and spellings are common "
                "(Hypothesis); copies (copy, deepcopy, pickle protocols 0-5) of valid and unvalidated IBANs, their BBANs, directly "
                "built BBANs, and registry / invalid BICs. Non-trivial = pair with equal compacts of different classes or any "
                "unequal pair; every copy case; distinct by description.")
    ctx.explanation = ("Oracle: the same operation on key strings k(object)=norm(source text), k(str)=the string itself: ==, !=, <, "
                       "<=, >, >=, hash equality with the compact str, dict/set membership both ways, sorted(), set size. Copies: "
                       "same class, equal, same country_code, same eight components, IBAN.bban a BBAN equal to the original's.")
    ctx.assumptions = ["comparisons with non-strings are outside the statement"]
    ctx.hyp_parallel(strategies, hyp_body, ctx.pick(8000, 400000), name="C16-hyp")
    ctx.pmap(shard_copies, [(cc, ctx.seed, ctx.tier) for cc in o.countries()])
    bics = sorted({e["bic"] for e in oreg.load_banks() if e.get("bic")})[::ctx.pick(200, 5)]
    for b in bics:
        stem = b[:8]
        for other in (stem, stem + "XXX"):
            for ka, kb in (("bic", "bic"), ("bic", "str"), ("str", "bic"), ("bic", "iban")):
                check_pair(ctx.rec, (ka, b), (kb, other), "registry-8-vs-11")
                ctx.rec.case("pair-8-vs-11", (ka, b, kb, other))
        check_copies(ctx.rec, ("bic", b), True, "registry")
        ctx.rec.case("copy-bic-valid", ("bic", b), {"obj": ["bic", b]} if b is bics[0] else None)
        bad = b[:3] + "-" + b[4:] + "Q"
        check_copies(ctx.rec, ("bic", bad), False, "unvalidated")
        ctx.rec.case("copy-bic-unvalidated", ("bic", bad), {"obj": ["bic", bad]} if b is bics[0] else None)
    # objects hashed and pickled in another interpreter with another hash seed
    rng = ctx.rng("cross")
    g = gen()
    descs = []
    for cc in rng.sample(o.countries(), ctx.pick(25, 126)):
        t = g.iban(cc, rng)
        descs += [("iban", t), ("bban", t[4:], cc), ("iban", t[:-1] + "-"), ("bic", "GENODEM1GLS"), ("bic", "genodem1 gl")]
    for hs in ctx.pick(("1", "4242"), ("1", "2", "4242", "random")):
        check_cross_process(ctx.rec, descs, hs)
        ctx.rec.evals += len(descs)
    ctx.rec.sample("cross-process-object", {"objects": len(descs), "first": list(descs[0])})
    from ._configs import stage as _config_stage
    _config_stage(ctx, ['objects'])
    ctx.require_classes("copy-used", "copy-used-listed-bank", "pair-8-vs-11", "copy-subclass", "copy-degenerate", "cross-process-object", "copy-container", "copy-container-with-sibling-country", "pair-equal-cross-class", "pair-different", "sort-list", "copy-iban-valid", "copy-iban-unvalidated",
                        "copy-bban_of_iban-valid", "copy-bban-direct", "copy-bic-valid", "copy-bic-unvalidated")
