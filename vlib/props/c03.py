"""C03 Every single typing error in a valid IBAN is detected (DESIGN 7/C03)."""
from __future__ import annotations

from ..oracles import nat as onat
from ..oracles.core import ASCII_DIGITS, ASCII_UPPER
from ..runner import HarnessError, Rec
from ._shared import gen, oracle


_N = [0]


def check_mutant(rec, base, mutant, kind, pos):
    from ..lib import IBAN, SchwiftyException, frame_of
    inp = {"base": base, "mutant": mutant, "kind": kind, "pos": pos}
    if oracle().accept_norm(mutant):
        raise HarnessError(f"reference accepts a single-error mutant {mutant} of {base}: oracle or generator is wrong")
    z = "cc" if pos < 2 else ("cd" if pos < 4 else "bban")
    routes = [("ctor", lambda: IBAN(mutant)), ("ctor+national", lambda: IBAN(mutant, validate_bban=True)),
              ("validate+national", lambda: IBAN(mutant, allow_invalid=True).validate(validate_bban=True))]
    _N[0] += 1
    if _N[0] % 16 == 0:
        # the mistyped text handed over as a str subclass or carried by a library object (of the same or another class)
        from .. import dims
        for form, v in dims.arg_forms(mutant, IBAN):
            routes.append((f"argform:{form}", lambda v=v: IBAN(v)))
        rec.classes["mutant-argument-forms"] += 1
    for how, fn in routes:
        try:
            fn()
        except SchwiftyException:
            continue
        except Exception as e:  # noqa: BLE001
            rec.fail(f"crash|{type(e).__name__}|{frame_of(e)}", "mutant_rejected", inp, "library error",
                     f"{type(e).__name__}: {e}")
            return
        rec.fail(f"undetected|{kind}|{z}|{'letter' if mutant[pos].isalpha() else 'digit'}|{how}", "mutant_rejected", {**inp, "how": how},
                 "rejected", "accepted")
        return


def replay(rec, case):
    if case["input"].get("origin") == "configurations":
        from ._configs import replay as _r
        return _r(rec, case)
    i = case["input"]
    _N[0] = 15        # the replayed mutant is also tried in every argument form
    check_mutant(rec, i["base"], i["mutant"], i["kind"], i["pos"])


def mutants(base):
    for i in range(2, len(base)):
        c = base[i]
        pool = ASCII_DIGITS if c in ASCII_DIGITS else ASCII_UPPER
        for r in pool:
            if r != c:
                yield "replace", i, base[:i] + r + base[i + 1:]
    # the same single substitution with a character from another script or form that *means* a letter or digit (full-width,
    # Arabic-Indic, mathematical ...): the one of the same value (the text looks right) and one of another value
    from ..gens import equivalents_table
    eq = equivalents_table()
    for i in range(2, len(base)):
        c = base[i]
        same = eq.get(c) or []
        pool = ASCII_DIGITS if c in ASCII_DIGITS else ASCII_UPPER
        other = eq.get(pool[(pool.index(c) + 1 + i) % len(pool)]) or []
        for lst, k in ((same, i), (same, i * 7 + 3), (other, i)):
            if lst:
                yield "replace-equivalent", i, base[:i] + lst[k % len(lst)] + base[i + 1:]
    for i in range(0, len(base) - 1):
        a, b = base[i], base[i + 1]
        if a != b and ((a in ASCII_DIGITS) == (b in ASCII_DIGITS)):
            yield "swap", i, base[:i] + b + a + base[i + 2:]


def shard(arg):
    cc, seed, tier = arg
    import random
    from ..lib import IBAN, SchwiftyException
    from ..oracles.core import canonical_digits
    rng = random.Random(f"{seed}:C03:{cc}")
    rec = Rec()
    g = gen()
    n = 4 if tier == "quick" else 36
    variants = ["letters", "digits", "max"] + ["random"] * n
    seen = set()
    o = oracle()
    n_bases = 0
    # countries whose BBANs have the same length (a mutant's BBAN text may be a valid BBAN there)
    siblings = [c for c in o.countries() if c != cc and o.bban_length(c) == o.bban_length(cc)]
    for v in variants + ["self-similar"] * (2 if tier == "quick" else 10) + ["near-self-similar"] * (12 if tier == "quick" else 150):
        base = (g.self_similar_iban(cc, rng) if v == "self-similar" else
                g.near_self_similar_iban(cc, rng) if v == "near-self-similar" else g.iban(cc, rng, v))
        if v == "random" and cc in onat.LISTED:
            # nationally valid bases for the countries with a national algorithm (national validation is requested as well)
            b = g.natvalid_bban(cc, rng)
            if b:
                base = g.iban_of(cc, b)
                rec.classes["base-nationally-valid"] += 1
        if base is None:
            continue
        if "self-similar" in v:
            rec.classes["base-" + v] += 1
        if base in seen:
            continue
        seen.add(base)
        try:
            IBAN(base)  # the base itself must be valid in the library; if not, C01/C02 report it - here it is a precondition
        except SchwiftyException:
            # the base is valid by the reference; that the library rejects it is C01/C02's finding - its single-error
            # neighbours must be rejected all the same, so they are still examined
            rec.excluded["valid base rejected by the library (reported by C01/C02); its mutants are still examined"] += 1
        n_bases += 1
        for kind, pos, m in mutants(base):
            # History warm-up: the verdict may not depend on what was parsed before (C15), so a *valid* IBAN of another
            # country with the same check digits and the mutant's BBAN text is parsed first whenever one exists; a cache
            # keyed on too little (BBAN text without the country) then shows up as an undetected typing error.
            for other in (siblings if m.isascii() else ()):
                if canonical_digits(other, m[4:]) == m[2:4] and o.accept_norm(other + m[2:]):
                    try:
                        IBAN(other + m[2:])
                        rec.classes["warmup-sibling-valid"] += 1
                    except SchwiftyException:
                        pass
            check_mutant(rec, base, m, kind, pos)
            rec.evals += 1
            rec.classes[f"{kind}-{'letter' if m[pos].isalpha() else 'digit'}"] += 1
            rec.nt.add(hash(m))
        if len(seen) == 1:
            ms = list(mutants(base))
            rec.sample("replace", {"base": base, "mutant": ms[0][2]})
            rec.sample("swap", {"base": base, "mutant": ms[-1][2]})
    rec.exhaustive.append("every same-kind replacement at every position >= 2 and every adjacent same-kind transposition, per base")
    if n_bases == 0:
        rec.notes.append(f"{cc}: every constructed valid IBAN was rejected by the library (C01/C02 report that); no mutants tested")
    return rec


def run(ctx):
    import vlib.lib  # noqa: F401
    ctx.rule = ("Valid IBANs of every bundled country (letters-heavy, digits-heavy, all-max, random) x every position >= 2 x "
                "every other character of the same kind (9 digits / 25 letters), and every adjacent pair of different "
                "same-kind characters swapped (positions 0..len-2). Every mutant keeps length and per-position kind, so "
                "only arithmetic (or the class a/n/c of the position) can reject it: all are non-trivial; distinct by text.")
    ctx.explanation = ("Oracle: the mutant must be rejected with a library error; cross-check that the independent "
                       "reference also rejects it (otherwise harness error).")
    ctx.assumptions = ["'same kind' = ASCII digit for digit, ASCII upper-case letter for letter; plus, per position, three characters "
                       "of other scripts / forms that Unicode maps to a digit or letter (two of the same value, one of another)"]
    from ..gens import equivalents_table
    equivalents_table()        # built once, before the shards are forked
    ctx.pmap(shard, [(cc, ctx.seed, ctx.tier) for cc in oracle().countries()])
    from ._configs import stage as _config_stage
    _config_stage(ctx, ['parse'])
    ctx.require_classes("replace-equivalent-digit", "replace-equivalent-letter", "mutant-argument-forms", "replace-digit", "replace-letter", "swap-digit", "swap-letter", "base-self-similar", "base-near-self-similar", "base-nationally-valid")
