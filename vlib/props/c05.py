"""C05 Validation is total and its errors name a defect that is really present (DESIGN 7/C05)."""
from __future__ import annotations

from .. import gens
from ..oracles import bic as obic
from ..oracles.core import ALNUM, ASCII_DIGITS, ASCII_UPPER, matches_structure, norm
from ..oracles.national import National
from ..runner import Rec
from ._shared import char_cat, gen, oracle

_NAT = None

CLASS_OF = {"country": "InvalidCountryCode", "length": "InvalidLength", "chars": "InvalidStructure",
            "format": "InvalidStructure", "checksum": "InvalidChecksumDigits"}


def national():
    global _NAT
    if _NAT is None:
        try:
            from schwifty.checksum import algorithms
            impl = {k.split(":", 1)[1] for k in algorithms if k.startswith("DE:")}
        except Exception:  # noqa: BLE001 - refactored away: assume the methods this harness has references for
            impl = None
        _NAT = National(oracle(), implemented=impl)
    return _NAT


def iban_expectation(text, flag):
    """(must_accept: bool|None, allowed exception class names, defects). must_accept None = either."""
    o = oracle()
    s = norm(text)
    defs = o.defects(s)
    allowed = {CLASS_OF[d] for d in defs}
    cc = s[:2]
    nat = True
    if flag and cc in o.table and matches_structure(o.toks[cc], s[4:]) and len(s) >= 4:
        nat = national().verdict(cc, s[4:])
        if nat is not True:
            allowed.add("InvalidBBANChecksum")
            defs = defs | {"national" if nat is False else "national?"}
            if cc == "NO" and (nat is None or national().norway_uncomputable(s[4:])):
                allowed.add("InvalidAccountCode")
    iso_ok = not (defs - {"national", "national?"})
    if not iso_ok:
        return False, allowed, defs
    if nat is True:
        return True, set(), defs
    if nat is False:
        return False, allowed, defs
    return None, allowed, defs


def check_iban(rec: Rec, text: str, flag: bool, origin: str):
    from ..lib import IBAN, SchwiftyException, frame_of
    must, allowed, defs = iban_expectation(text, flag)
    inp = {"text": text, "validate_bban": flag, "origin": origin}
    outcomes = {}

    def observe(name, fn):
        try:
            r = fn()
            outcomes[name] = ("ok", r)
        except SchwiftyException as e:
            outcomes[name] = ("err", type(e).__name__)
        except Exception as e:  # noqa: BLE001
            outcomes[name] = ("crash", type(e).__name__)
            rec.fail(f"escape|iban.{name}|{type(e).__name__}|{frame_of(e)}", "iban_total", inp,
                     "only SchwiftyException subclasses escape", f"{type(e).__name__}: {e}")

    observe("ctor", lambda: IBAN(text, validate_bban=flag) is not None)
    try:
        u = IBAN(text, allow_invalid=True)
    except Exception as e:  # noqa: BLE001
        rec.fail(f"escape|iban.unvalidated_ctor|{type(e).__name__}|{frame_of(e)}", "iban_total", inp,
                 "allow_invalid construction never raises", f"{type(e).__name__}: {e}")
        return must, defs
    observe("validate", lambda: u.validate(validate_bban=flag))
    observe("is_valid", lambda: u.is_valid)
    if any(v[0] == "crash" for v in outcomes.values()):
        return must, defs
    if outcomes["is_valid"][0] != "ok" or not isinstance(outcomes["is_valid"][1], bool):
        rec.fail("is_valid_raises_or_nonbool", "is_valid_total", inp, "bool", outcomes["is_valid"])
        return must, defs
    ctor_ok = outcomes["ctor"][0] == "ok"
    val_ok = outcomes["validate"][0] == "ok"
    if ctor_ok != val_ok:
        rec.fail("ctor_vs_validate", "iban_points_agree", inp, "same verdict", outcomes)
    if not flag and ctor_ok != outcomes["is_valid"][1]:
        rec.fail("ctor_vs_is_valid", "iban_points_agree", inp, "same verdict", outcomes)
    if flag:
        # is_valid has no flag: it must equal the flag-off verdict
        must0, _, _ = iban_expectation(text, False)
        if must0 is not None and outcomes["is_valid"][1] is not must0:
            rec.fail("is_valid_vs_reference", "iban_points_agree", inp, must0, outcomes)
    if val_ok and outcomes["validate"][1] is not True:
        rec.fail("validate_returns_non_true", "validate_value", inp, True, outcomes["validate"][1])
    for name in ("ctor", "validate"):
        kind, val = outcomes[name]
        if kind == "ok":
            if must is False:
                rec.fail(f"false_accept|{'+'.join(sorted(defs))}", "iban_verdict", inp, "rejected: " + ",".join(sorted(defs)),
                         "accepted")
                break
        else:
            if must is True:
                rec.fail(f"false_reject|{val}", "iban_verdict", inp, "accepted", val)
                break
            if val not in allowed:
                rec.fail(f"wrong_class|{val}|present:{'+'.join(sorted(defs)) or 'none'}", "error_names_present_defect", inp,
                         sorted(allowed), val)
                break
    return must, defs


def bic_expectation(text, strict):
    s = norm(text)
    defs = obic.defects(s, strict)
    allowed = set()
    if "length" in defs:
        allowed.add("InvalidLength")
    if "structure" in defs:
        allowed.add("InvalidStructure")
    if "country" in defs:
        allowed.add("InvalidCountryCode")
    return (not defs), allowed, defs


def check_bic(rec: Rec, text: str, strict: bool, origin: str):
    from ..lib import BIC, SchwiftyException, frame_of
    must, allowed, defs = bic_expectation(text, strict)
    inp = {"bic": text, "strict": strict, "origin": origin}
    outcomes = {}

    def observe(name, fn):
        try:
            outcomes[name] = ("ok", fn())
        except SchwiftyException as e:
            outcomes[name] = ("err", type(e).__name__)
        except Exception as e:  # noqa: BLE001
            outcomes[name] = ("crash", type(e).__name__)
            rec.fail(f"escape|bic.{name}|{type(e).__name__}|{frame_of(e)}", "bic_total", inp,
                     "only SchwiftyException subclasses escape", f"{type(e).__name__}: {e}")

    observe("ctor", lambda: BIC(text, enforce_swift_compliance=strict) is not None)
    try:
        u = BIC(text, allow_invalid=True)
    except Exception as e:  # noqa: BLE001
        rec.fail(f"escape|bic.unvalidated_ctor|{type(e).__name__}|{frame_of(e)}", "bic_total", inp, "never raises",
                 f"{type(e).__name__}: {e}")
        return must, defs
    observe("validate", lambda: u.validate(enforce_swift_compliance=strict))
    observe("is_valid", lambda: u.is_valid)
    if any(v[0] == "crash" for v in outcomes.values()):
        return must, defs
    if outcomes["is_valid"][0] != "ok" or not isinstance(outcomes["is_valid"][1], bool):
        rec.fail("bic_is_valid_raises_or_nonbool", "is_valid_total", inp, "bool", outcomes["is_valid"])
        return must, defs
    ctor_ok = outcomes["ctor"][0] == "ok"
    if ctor_ok != (outcomes["validate"][0] == "ok"):
        rec.fail("bic_ctor_vs_validate", "bic_points_agree", inp, "same verdict", outcomes)
    if not strict and ctor_ok != outcomes["is_valid"][1]:
        rec.fail("bic_ctor_vs_is_valid", "bic_points_agree", inp, "same verdict", outcomes)
    for name in ("ctor", "validate"):
        kind, val = outcomes[name]
        if kind == "ok":
            if not must:
                rec.fail(f"bic_false_accept|{'+'.join(sorted(defs))}", "bic_verdict", inp, "rejected", "accepted")
                break
        else:
            if must:
                rec.fail(f"bic_false_reject|{val}", "bic_verdict", inp, "accepted", val)
                break
            if val not in allowed:
                rec.fail(f"bic_wrong_class|{val}|present:{'+'.join(sorted(defs))}", "error_names_present_defect", inp,
                         sorted(allowed), val)
                break
    return must, defs


def replay(rec, case):
    if case["input"].get("origin") == "configurations":
        from ._configs import replay as _r
        return _r(rec, case)
    from .. import dims
    from ..lib import BIC, IBAN
    i = case["input"]
    origin = i.get("origin", "replay")
    if origin == "registry-formats":
        registry_formats(rec, case.get("seed", 1))
        return
    form = origin.split(":", 1)[1] if origin.startswith("argform:") else None
    if "bic" in i:
        t = dict(dims.arg_forms(i["bic"], BIC)).get(form, i["bic"]) if form else i["bic"]
        check_bic(rec, t, i["strict"], origin)
    else:
        t = dict(dims.arg_forms(i["text"], IBAN)).get(form, i["text"]) if form else i["text"]
        check_iban(rec, t, i["validate_bban"], origin)


# ------------------------------------------------------------------------------------------------ generation

def inject(rng, g, o, cc, base_bban, which):
    """Build a text from a valid (cc, bban) carrying the defects named in `which` (constructive multi-defect input)."""
    bban = base_bban
    if "national" in which and cc in o.table:
        fld = o.positions(cc).get("national_checksum_digits")
        if fld:
            a, e = fld
            cur = bban[a:e]
            pool = ASCII_UPPER if cur[0] in ASCII_UPPER else ASCII_DIGITS
            new = "".join(rng.choice(pool) for _ in cur)
            bban = bban[:a] + new + bban[e:]
        else:
            i = rng.randrange(len(bban) - 10, len(bban)) if len(bban) > 10 else rng.randrange(len(bban))
            if bban[i] in ASCII_DIGITS:
                bban = bban[:i] + rng.choice(ASCII_DIGITS) + bban[i + 1:]
    t = g.iban_of(cc, bban)
    if "checksum" in which:
        d = int(t[2:4])
        t = t[:2] + f"{(d + rng.randrange(1, 100)) % 100:02d}" + t[4:]
    if "format" in which:
        cl = g.classes(cc)
        idx = [i for i, k in enumerate(cl) if k in "na"]
        if idx:
            i = rng.choice(idx)
            repl = rng.choice(ASCII_UPPER) if cl[i] == "n" else rng.choice(ASCII_DIGITS)
            t = t[:4 + i] + repl + t[5 + i:]
    if "chars" in which:
        i = rng.randrange(len(t))
        t = t[:i] + rng.choice(["-", ".", "_", "\u0663", "\u00e9", "\u0416", "?", "\x00", "\uff21"]) + t[i + 1:]
    if "length" in which:
        if rng.random() < 0.5 and len(t) > 6:
            k = rng.randrange(1, 4)
            t = t[:-k]
        else:
            t = t + "".join(rng.choice(ASCII_DIGITS) for _ in range(rng.randrange(1, 4)))
    if "country" in which:
        while True:
            c2 = rng.choice(ASCII_UPPER) + rng.choice(ASCII_UPPER)
            if c2 not in o.table:
                break
        t = c2 + t[2:]
    return t


DEFECTS = ("national", "checksum", "format", "chars", "length", "country")


def shard_country(arg):
    cc, seed, tier, alphabet = arg
    import random
    from itertools import combinations
    rng = random.Random(f"{seed}:C05:{cc}")
    rec = Rec()
    g, o = gen(), oracle()
    quick = tier == "quick"
    for bi in range(1 if quick else 4):
        b = g.natvalid_bban(cc, rng) or g.bban(cc, rng)
        base = g.iban_of(cc, b)
        for flag in (False, True):
            must, defs = check_iban(rec, base, flag, "base")
            rec.case("valid" if must else "valid-iso-only", (base, flag), {"text": base, "validate_bban": flag})
            for i, ch, t in gens.single_replacements(base, alphabet):
                must, defs = check_iban(rec, t, flag, "replace")
                rec.evals += 1
                if defs:
                    rec.nt.add(hash((t, flag)))
                rec.classes[f"replace-defects-{min(len(defs), 3)}"] += 1
    # extreme whitespace, domain tokens and argument forms (vlib/dims.py) - judged for totality, verdict and error class
    from .. import dims
    from ..lib import IBAN as _IBAN
    b = g.natvalid_bban(cc, rng) or g.bban(cc, rng)
    base = g.iban_of(cc, b)
    for flag in (False, True):
        for label, t in dims.whitespace_extremes(base, huge=(cc in ("DE", "FR", "LC"))):
            check_iban(rec, t, flag, f"ws-extreme:{label}")
            rec.case("ws-extreme", None)
            bad = t.replace(base[6], "?", 1) + "9"
            must, defs = check_iban(rec, bad, flag, f"ws-extreme-bad:{label}")
            rec.case("ws-extreme-defects", (cc, label, flag) if defs else None)
        for label, t in (dims.content_extremes(base) if (cc in ("DE", "FR", "GB", "NO", "LC") or o.countries().index(cc) % 8 == 0) else ()):
            must, defs = check_iban(rec, t, flag, f"content-extreme:{label}")
            rec.case("content-extreme", (cc, label, flag))
        for label, t in dims.token_variants(base, dims.token_dictionary()[:12]):
            must, defs = check_iban(rec, t, flag, f"token:{label}")
            rec.case("token", (t, flag) if defs else None)
        for t in (base, base[:2] + "00" + base[4:], base[:-2], base[:5] + "!" + base[6:], "", "D", "XX00"):
            for form, v in dims.arg_forms(t, _IBAN):
                must, defs = check_iban(rec, v, flag, f"argform:{form}")
                rec.case(f"argform-{form}", (t, form, flag) if defs else None, {"text": t, "form": form, "validate_bban": flag})
    # congruent alias spellings of the check digits (00, 01, 99): a checksum defect although the number is = 1 mod 97
    from .c02 import solve_for_digits
    for target in ("02", "97", "98"):
        b2 = solve_for_digits(cc, g.natvalid_bban(cc, rng) or g.bban(cc, rng), g.classes(cc), target, rng)
        if not b2:
            continue
        alias = f"{(int(target) + 97) % 100:02d}" if target == "02" else f"{int(target) - 97:02d}"
        t = cc + alias + b2
        for flag in (False, True):
            must, defs = check_iban(rec, t, flag, "alias-spelling")
            rec.case("alias-spelling", (t, flag) if defs else None, {"text": t, "validate_bban": flag, "canonical": target})
    # constructive multi-defect inputs: every subset of the six defect kinds, several draws each
    reps = 2 if quick else 12
    for r in range(1, len(DEFECTS) + 1):
        for which in combinations(DEFECTS, r):
            for _ in range(reps):
                b = g.natvalid_bban(cc, rng) or g.bban(cc, rng)
                t = inject(rng, g, o, cc, b, which)
                for flag in (False, True):
                    must, defs = check_iban(rec, t, flag, "inject:" + "+".join(which))
                    rec.case(f"inject-{r}-defects", (t, flag) if defs else None,
                             {"text": t, "validate_bban": flag, "injected": list(which), "present": sorted(defs)})
                    if "national" in defs:
                        rec.classes["nationally-invalid"] += 1
    return rec


def shard_bic(arg):
    base, alphabet = arg
    rec = Rec()
    for strict in (False, True):
        must, defs = check_bic(rec, base, strict, "base")
        rec.case("bic-base", (base, strict), {"bic": base, "strict": strict})
        for i, ch, t in gens.single_replacements(base, alphabet):
            must, defs = check_bic(rec, t, strict, "replace")
            rec.evals += 1
            if defs:
                rec.nt.add(hash((t, strict)))
            rec.classes[f"bic-replace-defects-{len(defs)}"] += 1
        from .. import dims
        from ..lib import BIC as _BIC
        for label, t in dims.whitespace_extremes(base):
            check_bic(rec, t, strict, f"ws-extreme:{label}")
            rec.case("bic-ws-extreme", None)
        for label, t in dims.content_extremes(base):
            check_bic(rec, t, strict, f"content-extreme:{label}")
            rec.case("bic-content-extreme", (base, label, strict))
        for t in (base, base[:-1], base[:4] + "QQ" + base[6:], "", "A"):
            for form, v in dims.arg_forms(t, _BIC):
                must, defs = check_bic(rec, v, strict, f"argform:{form}")
                rec.case(f"bic-argform-{form}", (t, form, strict) if defs else None)
        for kind, t in gens.length_variants(base, filler="1", upto=14):
            must, defs = check_bic(rec, t, strict, "length")
            rec.case(f"bic-length-defects-{len(defs)}", (t, strict))
            # wrong length AND wrong country AND bad character at once
            t2 = t[:4] + "QQ" + t[6:]
            t3 = "-" + t2[1:]
            for tt in (t2, t3):
                must, defs = check_bic(rec, tt, strict, "multi")
                rec.case(f"bic-multi-defects-{len(defs)}", (tt, strict), {"bic": tt, "strict": strict, "present": sorted(defs)})
    return rec


def shard_codepoints(arg):
    """Every code point of the code space at one BBAN position of a valid IBAN, and at one position of a BIC: validation
    stays total and names a defect that is present (error messages that describe the offending character included)."""
    lo, hi, seed = arg
    from ._shared import codepoint_texts
    rec = Rec()
    for ch, equiv, t in codepoint_texts(lo, hi, seed):
        flag = bool(ord(ch) & 1)
        must, defs = check_iban(rec, t, flag, "codepoint")
        rec.evals += 1
        if defs:
            rec.nt.add(hash((t, flag)))
        rec.classes["codepoint" if defs else "codepoint-accepted"] += 1
        eq = gens.ascii_equivalents(ch)
        a = eq[0] if (eq and eq[0] in ASCII_UPPER) else "M"
        b = "DEUT" + "DE" + "FF"
        b = b[:2] + a + b[3:]
        b = b[:2] + ch + b[3:]
        strict = not flag
        must, defs = check_bic(rec, b, strict, "codepoint")
        rec.evals += 1
        if defs:
            rec.nt.add(hash((b, strict)))
        rec.classes["bic-codepoint" if defs else "bic-codepoint-accepted"] += 1
    rec.exhaustive.append("every code point 0..0x10FFFF at one BBAN position of one valid IBAN and at one position of a BIC")
    return rec


def registry_formats(rec: Rec, seed):
    """Bank rows in the minimal format the registry README documents (no checksum_algo), with an unknown method, and a
    non-German row carrying a method: validating IBANs of those banks - with and without national validation - stays total
    and follows the reference (no method / unknown method => accepted)."""
    import random
    from ..engines.pkgcopy import PackageCopy
    from ..oracles.core import canonical_digits, repo_root
    rng = random.Random(f"{seed}:C05:registry")
    rows = [
        {"bank_code": "12345678", "name": "Readme Bank", "short_name": "RB", "bic": "RDMEDEFFXXX", "primary": True, "country_code": "DE"},
        {"bank_code": "87654321", "name": "Odd Method", "short_name": "OM", "bic": "", "primary": True, "country_code": "DE", "checksum_algo": "ZZ"},
        {"bank_code": "11112222", "name": "Null Method", "short_name": "NM", "bic": None, "primary": False, "country_code": "DE", "checksum_algo": None},
        {"bank_code": "19043", "name": "AT with method", "short_name": "AT", "bic": "ABCDATWW", "primary": True, "country_code": "AT", "checksum_algo": "00"},
        {"bank_code": "ABCD", "name": "GB", "short_name": "GB", "bic": "ABCDGB22", "primary": True, "country_code": "GB"},
    ]
    g = gen()
    texts = []
    for r in rows:
        cc = r["country_code"]
        for _ in range(4):
            b = g.bban(cc, rng)
            a, e = oracle().positions(cc)["bank_code"]
            b = b[:a] + r["bank_code"] + b[a + len(r["bank_code"]):]
            texts.append(cc + canonical_digits(cc, b) + b)
    with PackageCopy(repo_root(), bank_files={"readme_format.json": rows}) as pc:
        ops = [{"op": "iban_verdict", "text": t, "validate_bban": f} for t in texts for f in (False, True)]
        res = pc.query(ops)
        if isinstance(res, dict):
            rec.fail("copy_import_fails|registry-formats", "iban_total", {"text": "", "validate_bban": True, "origin": "registry-formats",
                                                                        "rows": rows}, "package imports", res["import_error"][-300:])
            return
        for op, r in zip(ops, res):
            inp = {"text": op["text"], "validate_bban": op["validate_bban"], "origin": "registry-formats", "rows": rows}
            if "crash" in r:
                rec.fail(f"escape|registry-formats|{r['crash']}", "iban_total", inp, "only SchwiftyException subclasses escape", r)
            elif "ok" not in r:
                rec.fail(f"false_reject|registry-formats|{r.get('err')}", "iban_verdict", inp, "accepted (no implemented method for this bank)", r)
            rec.case("registry-formats", (op["text"], op["validate_bban"]), {"iban": op["text"], "validate_bban": op["validate_bban"]})


def text_strategy():
    from hypothesis import strategies as st
    from .c01 import text_strategy as iban_texts
    from .c04 import text_strategy as bic_texts
    return st.one_of(st.tuples(st.just("iban"), iban_texts(), st.booleans()),
                     st.tuples(st.just("bic"), bic_texts([]), st.just(False)))


def hyp_body(rec, v):
    which, payload, flag = v
    if which == "iban":
        kind, t = payload
        must, defs = check_iban(rec, t, flag, f"hyp:{kind}")
        rec.case(f"hyp-iban-{kind}", (t, flag) if (defs and (kind == "near" or not t.isascii())) else None,
                 {"text": t, "validate_bban": flag, "present": sorted(defs)} if kind == "near" else None)
    else:
        kind, t, strict = payload
        must, defs = check_bic(rec, t, strict, f"hyp:{kind}")
        rec.case(f"hyp-bic-{kind}", (t, strict) if (defs and (kind == "near" or not t.isascii())) else None)


def run(ctx):
    import vlib.lib  # noqa: F401
    national()
    o = oracle()
    ctx.rule = ("IBAN texts x {national validation off, on}: per country a nationally valid base and its complete "
                "single-replacement neighbourhood over alphabet W; constructive multi-defect inputs for every non-empty "
                "subset of {national, checksum, format, chars, length, country}; every code point 0..0x10FFFF at one BBAN "
                "position and at one BIC position; Hypothesis near-valid edit chains and "
                "arbitrary Unicode. BIC texts x {iso, strict}: bases x W, every length, multi-defect combinations. "
                "Non-trivial = at least one defect present according to the reference and the text is within 3 edits of a "
                "valid one or contains non-ASCII; distinct by (text, mode).")
    ctx.explanation = ("Oracle: defect classifier of the reference model (country, length, chars, format, checksum from "
                       "O-iban; national from O-nat/O-de through the registry). Relations: (1) only SchwiftyException "
                       "subclasses escape from constructor/validate; (2) is_valid returns a bool and never raises; (3) "
                       "constructor verdict == validate verdict == is_valid (flag off); (4) verdict == reference; (5) the "
                       "raised class is justified by a defect that is present (any justified class passes).")
    ctx.assumptions = ["order of checks is an implementation choice: any class whose defect is present passes",
                       "Norway: InvalidAccountCode tolerated when no check digit exists (remainder 1) or account starts 00"]
    alphabet = gens.alphabet_quick() if ctx.quick else gens.alphabet_thorough(ctx.rng("alphabet"), 500)
    ctx.pmap(shard_country, [(cc, ctx.seed, ctx.tier, alphabet) for cc in o.countries()])
    from .c04 import bases
    ctx.pmap(shard_bic, [(b, alphabet) for b in bases(ctx.rng("bic"), ctx.pick(2, 20))])
    ctx.pmap(shard_codepoints, [(lo, hi, ctx.seed) for lo, hi in gens.codepoint_chunks(64)])
    registry_formats(ctx.rec, ctx.seed)
    ctx.hyp_parallel(text_strategy, hyp_body, ctx.pick(8000, 400000), name="C05-text")
    if not ctx.quick:
        from ..engines import fuzz
        fuzz.run_campaign(ctx.rec, "iban-c05", 100000, ctx.seed, ctx.prop)   # secondary engine: coverage-guided, oracle inside
        fuzz.run_campaign(ctx.rec, "bic-c05", 100000, ctx.seed, ctx.prop)
    from ._configs import stage as _config_stage
    _config_stage(ctx, ['parse', 'bic'])
    ctx.require_classes("content-extreme", "bic-content-extreme", "alias-spelling", "registry-formats", "ws-extreme", "ws-extreme-defects", "token", "argform-userstr", "argform-own-object", "bic-argform-own-object",
                        "valid", "replace-defects-1", "replace-defects-2", "inject-1-defects", "inject-4-defects",
                        "nationally-invalid", "codepoint", "bic-codepoint", "bic-base", "bic-multi-defects-3", "hyp-iban-near", "hyp-bic-near")
