"""C18 Registry files compose in name order: deep later-wins merge, list concatenation (DESIGN 7/C18)."""
from __future__ import annotations

import copy
import json

from ..oracles import reg as oreg
from ..oracles.core import COMPONENTS, IbanOracle, canonical_digits, load_table, merge, repo_root
from ..runner import HarnessError, Rec
from .. import gens

KEYS = ["a", "b", "c", "positions", "DE", "x", ""]


# ------------------------------------------------------------------------------------------------ unit level

def overlay_strategy():
    from hypothesis import strategies as st
    leaf = st.one_of(st.integers(-3, 3), st.text(alphabet="ab", max_size=2), st.booleans(), st.none(),
                     st.lists(st.integers(0, 3), max_size=3))
    return st.recursive(st.dictionaries(st.sampled_from(KEYS), leaf, max_size=4),
                        lambda inner: st.dictionaries(st.sampled_from(KEYS), st.one_of(leaf, inner), max_size=4), max_leaves=12)


def has_nested_conflict(l, r, depth=0):
    for k in l:
        if k in r:
            if isinstance(l[k], dict) and isinstance(r[k], dict):
                if depth >= 0 and (set(l[k]) & set(r[k])):
                    return True
                if has_nested_conflict(l[k], r[k], depth + 1):
                    return True
            elif isinstance(l[k], dict) != isinstance(r[k], dict):
                return True
    return False


def check_merge(rec: Rec, docs):
    from schwifty import registry
    if not hasattr(registry, "merge_dicts"):
        rec.excluded["unit level skipped: registry.merge_dicts not present (refactored); end-to-end part decides"] += 1
        return
    inp = {"docs": docs}
    before = copy.deepcopy(docs)
    try:
        got = docs[0]
        want = docs[0]
        for d in docs[1:]:
            got = registry.merge_dicts(got, d)
            want = merge(want, d)
    except Exception as e:  # noqa: BLE001
        rec.fail(f"merge_raises|{type(e).__name__}", "merge_total", inp, "merged dict", f"{type(e).__name__}: {e}")
        return
    if got != want:
        rec.fail("merge_differs", "deep_later_wins_merge", inp, want, got)
    if docs != before:
        rec.fail("merge_mutates_inputs", "merge_pure", inp, before, docs)


def v2_strategy():
    from hypothesis import strategies as st
    entry = st.fixed_dictionaries(
        {"country_code": st.sampled_from(["DK", "DE"]), "bic": st.sampled_from(["", "DABADKKK", None]),
         "name": st.sampled_from(["A", "B"]), "codes": st.lists(st.sampled_from(["0001", "0002", "", "9999"]), max_size=4)},
        optional={"primary": st.booleans(), "short_name": st.just("s"), "bank_code": st.sampled_from(["7777", ""]),
                  "extra": st.integers(0, 2)})
    def doc(es_names):
        es, (src, dst) = es_names
        out = []
        for e in es:
            e = dict(e)
            codes = e.pop("codes")
            if src == dst:
                e.pop("bank_code", None)
            e[src] = codes
            out.append(e)
        return {"expand_from": src, "expand_into": dst, "entries": out}
    names = st.sampled_from([("codes", "bank_code"), ("bank_codes", "bank_code"), ("bank_code", "bank_code"), ("codes", "code")])
    return st.tuples(st.lists(entry, max_size=5), names).map(doc)


def check_v2(rec: Rec, doc):
    from schwifty import registry
    if not hasattr(registry, "parse_v2"):
        rec.excluded["unit level skipped: registry.parse_v2 not present (refactored); end-to-end part decides"] += 1
        return
    want = oreg.expand_v2(copy.deepcopy(doc))
    try:
        got = registry.parse_v2(copy.deepcopy(doc))
    except Exception as e:  # noqa: BLE001
        rec.fail(f"parse_v2_raises|{type(e).__name__}", "v2_total", {"doc": doc}, want, f"{type(e).__name__}: {e}")
        return
    if got != want:
        rec.fail("parse_v2_differs", "v2_expansion", {"doc": doc}, want, got)


def unit_strategy():
    from hypothesis import strategies as st
    ov = overlay_strategy()
    return st.one_of(st.lists(ov, min_size=2, max_size=3).map(lambda l: ("merge", l)),
                     st.lists(ov, min_size=2, max_size=3).map(lambda l: ("merge", l)),
                     v2_strategy().map(lambda d: ("v2", d)))


def hyp_body(rec, v):
    kind, payload = v
    if kind == "merge":
        check_merge(rec, payload)
        conflict = any(has_nested_conflict(a, b) for a, b in zip(payload, payload[1:]))
        rec.case(f"merge-{len(payload)}-docs" + ("-conflict" if conflict else ""), json.dumps(payload, sort_keys=True) if conflict else None,
                 {"docs": payload} if conflict else None)
    else:
        check_v2(rec, payload)
        n = sum(len(e[payload["expand_from"]]) for e in payload["entries"])
        rec.case("v2-doc", json.dumps(payload, sort_keys=True) if n >= 2 else None, payload if n >= 2 else None)


# ------------------------------------------------------------------------------------------------ end to end

ZZ_SPEC = {"country": "ZZ", "in_sepa_zone": False, "bban_spec": "4!a6!n2!c", "bban_length": 12, "iban_spec": "ZZ2!n4!a6!n2!c",
           "iban_length": 16, "positions": {"bank_code": [0, 4], "account_code": [4, 10], "account_type": [10, 12]}}


def gen_iban_overlay(rng, bundled):
    """One consistent overlay document for the IBAN registry (semantic changes + harmless extra keys)."""
    doc = {}
    kinds = rng.sample(["new", "lengthen", "move", "extra", "sepa", "spec_same_len", "drop_in", "defaults"], rng.randrange(1, 4))
    ccs = sorted(bundled)
    # a free-form key under one fixed country whose value is a dictionary in some files and a scalar in others: with three or
    # more files the name-ordered left fold is the only order that gives the right answer (dict, scalar, dict ...)
    doc.setdefault("DE", {})["x_note"] = rng.choice([0, "s", None, {"a": rng.randrange(3)}, {"b": rng.randrange(3)},
                                                      {"a": 1, "c": {"d": rng.randrange(3)}}, {"c": 7}])
    for kind in kinds:
        if kind == "new":
            cc = rng.choice(["ZZ", "QQ", "XA"])
            spec = copy.deepcopy(ZZ_SPEC)
            size = rng.choice(["usual", "usual", "longest", "short"])
            if size == "longest":        # 34 characters, the longest IBAN ISO 13616 allows (no bundled country has it)
                spec.update(bban_spec="4!a6!n20!c", bban_length=30, iban_spec="ZZ2!n4!a6!n20!c", iban_length=34,
                            positions={"bank_code": [0, 4], "account_code": [4, 10], "account_type": [10, 12], "account_id": [12, 30]})
            elif size == "short":
                spec.update(bban_spec="4!a3!n", bban_length=7, iban_spec="ZZ2!n4!a3!n", iban_length=11,
                            positions={"bank_code": [0, 4], "account_code": [4, 7]})
            spec["country"] = cc
            spec["iban_spec"] = cc + spec["iban_spec"][2:]
            doc[cc] = spec
        elif kind == "lengthen":
            cc = rng.choice(ccs)
            old = bundled[cc]
            if old["iban_length"] >= 33:
                continue
            doc[cc] = {"bban_spec": old["bban_spec"] + "1!n", "bban_length": old["bban_length"] + 1,
                       "iban_spec": old["iban_spec"] + "1!n", "iban_length": old["iban_length"] + 1}
        elif kind == "spec_same_len":
            cc = rng.choice(ccs)
            old = bundled[cc]
            doc[cc] = {"bban_spec": f"{old['bban_length']}!c"}
        elif kind == "move":
            cc = rng.choice([c for c in ccs if "account_code" in bundled[c].get("positions", {})])
            a, e = bundled[cc]["positions"]["account_code"]
            if e - a < 3:
                continue
            doc.setdefault(cc, {}).setdefault("positions", {})["account_code"] = [a + 1, e]
        elif kind == "extra":
            cc = rng.choice(ccs)
            doc.setdefault(cc, {})["x_note"] = {"k": rng.randrange(5), "nested": {"deep": [1, 2]}}
        elif kind == "defaults":
            # a default value for a component the country has no position for (the bundled data carry default_currency_code
            # for two countries that do have the field): the component stays empty
            cc = rng.choice(ccs)
            free = [c for c in COMPONENTS if c not in bundled[cc].get("positions", {})]
            for c in rng.sample(free, min(len(free), 2)):
                doc.setdefault(cc, {})["default_" + c] = rng.choice(["EUR", "0", "X1"])
        elif kind == "sepa":
            cc = rng.choice(ccs)
            doc.setdefault(cc, {})["in_sepa_zone"] = not bundled[cc].get("in_sepa_zone", False)
        elif kind == "drop_in":
            cc = rng.choice([c for c in ccs if "positions" in bundled[c]])
            doc.setdefault(cc, {}).setdefault("positions", {})["currency_code"] = [0, 1]
    return doc


BANK_CC = {"DE": ["10000000", "20000000"], "ZZ": ["ABCD", "WXYZ"], "GB": ["NWBK", "ABCD"]}


def gen_bank_files(rng):
    files = {}
    for li in rng.sample("bcdefgijklmnpqrstuvwxy", rng.randrange(1, 5)):
        v2 = rng.random() < 0.4
        entries = []
        for _ in range(rng.randrange(0, 6)):
            cc = rng.choice(list(BANK_CC))
            e = {"country_code": cc, "name": f"N{rng.randrange(50)}", "short_name": f"S{rng.randrange(50)}",
                 "bic": rng.choice(["AAAA%sFF" % (cc if cc != "ZZ" else "DE"), "BBBB%s2LXXX" % (cc if cc != "ZZ" else "FR"), ""])}
            if v2:
                e["bank_codes"] = [rng.choice(BANK_CC[cc]) for _ in range(rng.randrange(0, 3))]
                if rng.random() < 0.5:
                    e["primary"] = rng.random() < 0.5
                if rng.random() < 0.3:
                    e["bank_code"] = rng.choice(BANK_CC[cc])      # a left-over field named like the expansion target
            else:
                e["bank_code"] = rng.choice(BANK_CC[cc])
                e["primary"] = rng.random() < 0.5
            entries.append(e)
        name = f"{li}banks" + (".v2.json" if v2 else ".json")
        if rng.random() < 0.25:
            name = rng.choice(ODD_STEMS) + li + (".v2.json" if v2 else ".json")
        elif rng.random() < 0.3:
            # extra dotted segments in the name: "xbanks.local.v2.json" is still a v2 file, "xbanks.v2.old.json" is not
            name = f"{li}banks.local" + (".v2.json" if v2 else ".json")
        if v2 and rng.random() < 0.3:
            # the list of codes stored under the very name it is expanded into
            for e in entries:
                e.pop("bank_code", None)
                e["bank_code"] = e.pop("bank_codes")
            files[name] = {"expand_from": "bank_code", "expand_into": "bank_code", "entries": entries}
            continue
        files[name] = {"expand_from": "bank_codes", "expand_into": "bank_code", "entries": entries} if v2 else entries
        if rng.random() < 0.35 and entries and not v2:
            # a second file whose name extends this one's stem: 'xbanks-more.json' sorts BEFORE 'xbanks.json' ('-' < '.'),
            # 'xbanks_more.json' after it - file-name order, not stem order
            sep = rng.choice("-_")
            files[f"{li}banks{sep}more.json"] = [dict(entries[0], name="MORE", primary=not entries[0].get("primary", False))]
    return files


def run_copy(rec: Rec, iban_files, bank_files, seed, where, other_files=None):
    import random
    from ..engines.pkgcopy import PackageCopy
    rng = random.Random(f"{seed}:C18:probe")
    inp = {"iban_files": iban_files, "bank_files": bank_files, "where": "copy:" + str(where), "other_files": other_files or {}}
    bundled = _BUNDLED["table"]
    with PackageCopy(repo_root(), iban_files=iban_files, bank_files=bank_files, other_files=other_files) as pc:
        eff = load_table(pc.iban_dir)
        banks = oreg.load_banks(pc.bank_dir)
        idx = oreg.index_by_code(banks)
        try:
            o_eff = IbanOracle(eff)
        except Exception as e:  # noqa: BLE001
            raise HarnessError(f"generated overlay is not a usable table: {e}")
        g_eff = gens.Gen(o_eff)
        o_old, g_old = _BUNDLED["oracle"], _BUNDLED["gen"]
        changed = sorted(cc for cc in eff if eff[cc] != bundled.get(cc))
        named = set()
        for d in iban_files.values():
            named |= set(d)
        ops = [{"op": "registry", "name": "iban"}, {"op": "registry", "name": "bank"}]
        probes = []
        probe_ccs = changed + rng.sample(sorted(set(eff) - set(changed)), 3)
        from .c17 import check_country
        for cc in probe_ccs:
            # several overlay files may change one country in ways that do not fit together (one lengthens the structure,
            # another replaces the structure string): such an effective entry is not internally consistent (C17's predicate)
            # and says nothing about what should be accepted - the table comparison above still applies to it
            sub = Rec()
            check_country(sub, cc, eff[cc])
            if sub.fails:
                rec.excluded["behaviour probe skipped: overlays combine to an inconsistent entry"] += 1
                continue
            t_new = g_eff.iban(cc, rng)
            if not o_eff.accept_norm(t_new):
                raise HarnessError(f"reference rejects its own construction under the effective table: {t_new}")
            probes.append(("accept_effective", cc, t_new))
            ops.append({"op": "iban_info", "text": t_new})
            probes.append(("assemble_effective", cc, t_new))
            ops.append({"op": "from_bban", "cc": cc, "bban": t_new[4:]})
            if cc in bundled:
                t_old = g_old.iban(cc, rng)
                if not o_eff.accept_norm(t_old):
                    probes.append(("reject_bundled_only", cc, t_old))
                    ops.append({"op": "iban_info", "text": t_old})
        keys = sorted(idx)[:12]
        for cc, code in keys:
            ops.append({"op": "candidates", "cc": cc, "code": code})
        res = pc.query(ops)
        if isinstance(res, dict):
            rec.fail("copy_import_fails", "copy_imports", inp, "imports", res["import_error"][-500:])
            return {}
        r_iban, r_bank = res[0], res[1]
        if "ok" not in r_iban or r_iban["ok"] != eff:
            diff = None
            if "ok" in r_iban:
                diff = sorted(cc for cc in set(eff) | set(r_iban["ok"]) if eff.get(cc) != r_iban["ok"].get(cc))[:5]
            rec.fail("effective_table_differs", "table_is_name_ordered_deep_merge", inp, {c: eff.get(c) for c in (diff or [])},
                     {c: r_iban.get("ok", {}).get(c) for c in (diff or [])} if diff is not None else r_iban)
        else:
            # an overlay changes exactly the keys it names and nothing else
            for cc in bundled:
                if cc not in named and r_iban["ok"].get(cc) != bundled[cc]:
                    rec.fail("unnamed_country_changed", "overlay_changes_only_named_keys", {**inp, "country": cc}, bundled[cc],
                             r_iban["ok"].get(cc))
                    break
        if "ok" not in r_bank or r_bank["ok"] != banks:
            rec.fail("effective_bank_list_differs", "bank_list_is_name_ordered_concatenation", inp, banks[:8],
                     r_bank.get("ok", r_bank)[:8] if isinstance(r_bank.get("ok"), list) else r_bank)
        for (kind, cc, text), r in zip(probes, res[2:2 + len(probes)]):
            if kind == "accept_effective":
                if "ok" not in r:
                    rec.fail(f"effective_valid_rejected|{'new' if cc not in bundled else 'changed' if cc in changed else 'untouched'}",
                             "validation_follows_effective_table", {**inp, "iban": text, "spec": eff[cc]}, "accepted", r)
                    continue
                comps = r["ok"]["components"]
                for k in comps:
                    want = o_eff.component(cc, text[4:], k)
                    if comps[k] != want:
                        rec.fail("component_not_at_overlaid_position", "components_follow_effective_table",
                                 {**inp, "iban": text, "component": k, "positions": eff[cc].get("positions")}, want, comps[k])
                        break
                if r["ok"].get("in_sepa_zone") != eff[cc].get("in_sepa_zone"):
                    rec.fail("scalar_not_overlaid", "validation_follows_effective_table", {**inp, "iban": text},
                             eff[cc].get("in_sepa_zone"), r["ok"].get("in_sepa_zone"))
            elif kind == "assemble_effective":
                if r.get("ok") != text:
                    rec.fail(f"effective_valid_not_assembled|{'new' if cc not in bundled else 'changed' if cc in changed else 'untouched'}",
                             "generation_follows_effective_table", {**inp, "cc": cc, "bban": text[4:], "spec": eff[cc]}, text, r)
            else:
                if "ok" in r:
                    rec.fail("bundled_only_valid_accepted", "validation_follows_effective_table",
                             {**inp, "iban": text, "spec": eff[cc]}, "rejected", r["ok"]["compact"])
        from .c12 import judge_candidates
        for (cc, code), r in zip(keys, res[2 + len(probes):]):
            if "ok" not in r:
                rec.fail("lookup_in_added_file_fails", "lookup_follows_effective_bank_list", {**inp, "key": [cc, code]}, "candidates", r)
            else:
                why = judge_candidates(idx[(cc, code)], r["ok"])
                if why:
                    rec.fail("lookup_differs", "lookup_follows_effective_bank_list", {**inp, "key": [cc, code]},
                             [e.get("bic") for e in idx[(cc, code)]], r["ok"])
        return {"changed": len(changed), "files": len(iban_files) + len(bank_files), "probes": len(probes)}


_BUNDLED = {}


def bundled():
    if not _BUNDLED:
        import os
        from ..oracles.core import iban_registry_dir
        t = load_table()
        o = IbanOracle(t)
        files = {}
        for name in os.listdir(iban_registry_dir()):
            if name.endswith(".json"):
                with open(os.path.join(iban_registry_dir(), name), encoding="utf-8") as fp:
                    files[name] = json.load(fp)
        _BUNDLED.update(table=t, oracle=o, gen=gens.Gen(o), files=files)
    return _BUNDLED


# file names are whatever the file system allows: hidden files, digits first, blanks, glob metacharacters, non-ASCII letters -
# all of them end in ".json" and take part, in code-point order of the whole name (no capitals: a case-insensitive reading of
# "file-name order" would place them differently)
ODD_STEMS = [".hidden", ".local", "0first", "sp ace", "x[1]", "~tilde", "zzz\u00fc", "-dash"]


def distractors(rng):
    """Files that are not registry files (other suffix, sub-directory): their content must not reach the effective data."""
    bad_iban = json.dumps({"DE": {"bban_length": 3, "x_distractor": True}, "QD": dict(ZZ_SPEC, country="QD")})
    bad_bank = json.dumps([{"country_code": "DE", "bank_code": "99999999", "name": "DISTRACTOR", "short_name": "D", "bic": "DDDDDEFF",
                            "primary": True}])
    pool = [("iban_registry/overwrite.json.bak", bad_iban), ("iban_registry/notes.txt", bad_iban), ("iban_registry/json", bad_iban),
            ("iban_registry/old/overlay.json", bad_iban), ("iban_registry/overlay.jsonl", bad_iban),
            ("bank_registry/extra.json.disabled", bad_bank), ("bank_registry/backup/banks.json", bad_bank),
            ("bank_registry/banks.json~", bad_bank)]
    return dict(rng.sample(pool, rng.randrange(0, 4)))


def gen_copy_config(rng):
    b = bundled()["table"]
    n = rng.randrange(1, 5)
    # names sort before ("a..."), between ("h...": generated < h < overwrite) and after ("z...") the bundled files
    prefixes = rng.sample(["aoverlay", "hoverlay", "poverlay", "zoverlay", "zzlast"] + ODD_STEMS, n)
    iban_files = {f"{p}.json": gen_iban_overlay(rng, b) for p in prefixes}
    for i, (name, doc) in enumerate(sorted(iban_files.items())):
        doc.setdefault("DE", {})[f"x_from_file_{i}"] = name         # every file leaves a trace of its own in the table
    if rng.random() < 0.5:
        # names that extend the stem of another file (also of a bundled one): 'overwrite-local.json' < 'overwrite.json'
        stem = rng.choice(["overwrite", "generated", prefixes[0]])
        sep = rng.choice("-_")
        doc = gen_iban_overlay(rng, b)
        # make it conflict with the file whose stem it extends, so that the order is observable
        other = iban_files.get(f"{stem}.json") or _BUNDLED["files"].get(f"{stem}.json", {})
        for cc in list(other)[:40]:
            if isinstance(other[cc], dict) and "in_sepa_zone" in other[cc]:
                doc.setdefault(cc, {})["in_sepa_zone"] = not other[cc]["in_sepa_zone"]
                break
        iban_files[f"{stem}{sep}local.json"] = doc
    return iban_files, gen_bank_files(rng)


def shard_copy(arg):
    i, seed = arg
    import random
    rng = random.Random(f"{seed}:C18:copy:{i}")
    rec = Rec()
    bundled()
    iban_files, bank_files = gen_copy_config(rng)
    others = distractors(rng)
    info = run_copy(rec, iban_files, bank_files, f"{seed}:{i}", i, others)
    if others:
        rec.classes["copy-config-with-non-registry-files"] += 1
    if any(n[0] in ".0~-" or not n.isascii() or " " in n or "[" in n for n in list(iban_files) + list(bank_files)):
        rec.classes["copy-config-unusual-file-name"] += 1
    rec.evals += 2 + info.get("probes", 0)
    rec.classes["copy-config"] += 1
    if info.get("files", 0) >= 3:
        rec.classes["copy-config-3plus-files"] += 1
    if any(n.endswith(".v2.json") for n in bank_files):
        rec.classes["copy-config-with-v2"] += 1
    if info.get("changed"):
        rec.classes["copy-config-semantic-change"] += 1
    rec.nt.add(hash(json.dumps([iban_files, bank_files], sort_keys=True)))
    if i < 3:
        rec.sample("copy-config", {"iban_files": iban_files, "bank_files": {k: (v if isinstance(v, list) else v["entries"])[:2]
                                                                           for k, v in bank_files.items()}})
    return rec


def replay(rec, case):
    i = case["input"]
    bundled()
    if "docs" in i:
        check_merge(rec, i["docs"])
    elif "doc" in i:
        check_v2(rec, i["doc"])
    else:
        run_copy(rec, i["iban_files"], i["bank_files"], 1, "replay", i.get("other_files"))


def shard_identity(arg):
    """The unchanged tree itself: effective table/bank list of the bundled files == reference composition."""
    rec = Rec()
    from schwifty import registry
    eff = load_table()
    got = {cc: {k: v for k, v in spec.items() if k != "regex"} for cc, spec in registry.get("iban").items()}
    if got != eff:
        diff = sorted(cc for cc in set(eff) | set(got) if eff.get(cc) != got.get(cc))[:5]
        rec.fail("bundled_table_differs", "table_is_name_ordered_deep_merge", {"where": "bundled", "iban_files": {}, "bank_files": {}},
                 {c: eff.get(c) for c in diff}, {c: got.get(c) for c in diff})
    banks = oreg.load_banks()
    if registry.get("bank") != banks:
        rec.fail("bundled_bank_list_differs", "bank_list_is_name_ordered_concatenation",
                 {"where": "bundled", "iban_files": {}, "bank_files": {}}, len(banks), len(registry.get("bank")))
    rec.case("bundled-table", "iban", {"countries": len(eff)})
    rec.case("bundled-banks", "bank", {"entries": len(banks)})
    return rec


def run(ctx):
    import vlib.lib  # noqa: F401
    from hypothesis import strategies as st
    bundled()
    ctx.rule = ("Unit level: Hypothesis-generated nested JSON dictionaries over a small key pool (conflicting and disjoint keys, "
                "dict-vs-scalar, lists, empty dicts), pairs and triples folded left; generated v2 documents. End to end: copies of "
                "the package with the bundled IBAN files plus 1-3 generated overlay files whose names sort before / between / "
                "after them (new country, lengthened structure, moved position, changed scalar, extra keys) and 1-4 bank files "
                "(plain and .v2.json). Non-trivial = merge case with a nested or dict/scalar conflict, v2 document expanding to >= 2 "
                "entries, every generated copy configuration; distinct by content.")
    ctx.explanation = ("Oracle: O-merge (right-biased recursive merge) and O-reg (name-ordered concatenation with v2 expansion) "
                       "computed from the files on disk. In the copy: registry.get('iban') minus 'regex' == reference table; "
                       "registry.get('bank') == reference list (order-sensitive); an IBAN valid under the effective table is "
                       "accepted and its components are read at the overlaid positions; one valid only under the bundled table is "
                       "rejected; lookups find banks of added files; countries no overlay names are identical to the bundled ones.")
    ctx.assumptions = ["'file-name order' is read as code-point order of the complete file name; every name ending in '.json' directly in "
                       "the directory takes part (hidden names, names with blanks or glob metacharacters included), nothing else does "
                       "(so 'x-more.json' < 'x.json' < 'x_more.json'); no names are generated on which case-insensitive or natural "
                       "order would differ from it",
                       "overlays are internally consistent (C17's predicate); key order of merged dicts is not compared"]
    ov = overlay_strategy()
    strat = st.one_of(st.lists(ov, min_size=2, max_size=3).map(lambda l: ("merge", l)),
                      st.lists(ov, min_size=2, max_size=3).map(lambda l: ("merge", l)),
                      v2_strategy().map(lambda d: ("v2", d)))
    ctx.hyp_parallel(unit_strategy, hyp_body, ctx.pick(8000, 400000), name="C18-unit")
    ctx.rec.merge(shard_identity(None))
    ctx.pmap(shard_copy, [(i, ctx.seed) for i in range(ctx.pick(48, 1200))])
    ctx.require_classes("merge-2-docs-conflict", "merge-3-docs-conflict", "v2-doc", "copy-config", "copy-config-3plus-files",
                        "copy-config-with-v2", "copy-config-semantic-change", "bundled-table", "copy-config-unusual-file-name",
                        "copy-config-with-non-registry-files")
