"""C01 IBAN acceptance is exactly the ISO 13616 rule set over the bundled country table (DESIGN 7/C01)."""
from __future__ import annotations

import re

from .. import gens
from ..oracles.core import ALNUM, IbanOracle, norm
from ..runner import HarnessError, Rec

_COMPACT_OK = re.compile(r"[A-Z0-9]{1,34}\Z")
from ._shared import char_cat, gen, oracle  # noqa: E402


def zone(i):
    return "cc" if i < 2 else ("cd" if i < 4 else "bban")


def check_text(rec: Rec, text: str, origin: str, full=False):
    """The C01 relation for one text. Returns the oracle verdict."""
    from ..lib import IBAN, SchwiftyException, frame_of
    o = oracle()
    s = norm(text)
    want = o.accept_norm(s)
    obj = None
    try:
        obj = IBAN(text)
        got = True
    except SchwiftyException:
        got = False
    except Exception as e:  # noqa: BLE001
        rec.fail(f"crash|{type(e).__name__}|{frame_of(e)}", "iban_total", {"text": text, "origin": origin},
                 "accepted or rejected with a library error", f"{type(e).__name__}: {e}")
        return want
    if got != want:
        nonascii = sorted({char_cat(c) for c in s if c not in ALNUM})
        kind = "false_accept" if got else "false_reject"
        rec.fail(f"{kind}|{origin.split(':')[0]}|{','.join(nonascii) or 'alnum'}", "iban_accept_iff",
                 {"text": text, "origin": origin}, want, got)
        return want
    if got:
        c = str(obj)
        if c != s or not _COMPACT_OK.match(c) or obj.compact != s:
            rec.fail("compact_form", "iban_compact", {"text": text, "origin": origin}, s, c)
    if got or full:
        # the three observation points agree
        try:
            u = IBAN(text, allow_invalid=True)
            iv = u.is_valid
            try:
                v = u.validate() is True
            except SchwiftyException:
                v = False
        except Exception as e:  # noqa: BLE001
            rec.fail(f"crash|{type(e).__name__}|{frame_of(e)}", "iban_total", {"text": text, "origin": origin},
                     "is_valid/validate answer", f"{type(e).__name__}: {e}")
            return want
        if iv is not want or v is not want:
            rec.fail("observation_points_disagree", "iban_three_points", {"text": text, "origin": origin},
                     want, {"constructor": got, "is_valid": iv, "validate": v})
    return want


def replay(rec, case):
    if case["input"].get("origin") == "configurations":
        from ._configs import replay as _r
        return _r(rec, case)
    from .. import dims
    from ..lib import IBAN
    t = case["input"]["text"]
    origin = case["input"].get("origin", "replay")
    if origin.startswith("argform:"):
        t = dict(dims.arg_forms(t, IBAN)).get(origin.split(":", 1)[1], t)
    check_text(rec, t, origin, full=True)


# ------------------------------------------------------------------------------------------------- shards

def shard_country(arg):
    cc, seed, tier, alphabet = arg
    import random
    rng = random.Random(f"{seed}:C01:{cc}")
    rec = Rec()
    g = gen()
    o = oracle()
    quick = tier == "quick"
    variants = ["random"] * (3 if quick else 12) + ["min", "max", "letters"] + ([] if quick else ["letters", "digits", "digits"])
    bases = []
    for v in variants:
        t = g.iban(cc, rng, v)
        if t not in bases:
            bases.append(t)
    from .c02 import solve_for_digits
    light = set()                              # bases that only get the check-digit sweep (their aliases are what matters)
    for target in ("02", "97", "98"):          # bases whose congruent aliases 99 / 00 / 01 exist
        b = solve_for_digits(cc, g.bban(cc, rng), g.classes(cc), target, rng)
        if b:
            t = g.iban_of(cc, b)
            if t not in bases:
                bases.append(t)
                light.add(t)
                rec.classes["base-alias-adjacent"] += 1
    t = g.self_similar_iban(cc, rng)       # the BBAN repeats the IBAN's own first four characters
    if t:
        bases.append(t)
        rec.classes["base-self-similar"] += 1
    for bi, base in enumerate(bases):
        if check_text(rec, base, "base", full=True) is not True:
            raise HarnessError(f"oracle rejects its own construction {base}")
        rec.case("valid", base, base if bi == 0 else None)
        # (b) complete single-replacement neighbourhood over the alphabet
        n = 0
        for i, ch, t in (gens.single_replacements(base, alphabet) if base not in light else ()):
            want = check_text(rec, t, f"replace:{zone(i)}", full=(n % 16 == 0))
            n += 1
            rec.evals += 1
            rec.nt.add(hash(t))
            if want:
                rec.classes["replace-accepted"] += 1     # whitespace / lower-case / check-digit-neutral cases
            elif not ch.isascii():
                rec.classes["replace-nonascii"] += 1
            else:
                rec.classes["replace-ascii"] += 1
        if bi < 2:
            # insertion neighbourhood: every alphabet character inserted at the start, after the country code, after the check
            # digits, in the middle and at the end (whitespace insertions are accepted, everything else rejected)
            for i, ch, t in gens.single_insertions(base, alphabet):
                want = check_text(rec, t, f"insert:{zone(i)}", full=False)
                rec.evals += 1
                rec.nt.add(hash(t))
                rec.classes["insert-accepted" if want else "insert-rejected"] += 1
            rec.exhaustive.append("every alphabet character inserted at 5 positions, first two bases per country")
        if bi == 0:
            rec.sample("replace-nonascii", base[:7] + "\u0663" + base[8:])
        # (c) every length 0..40; deletion / duplication / swap at every position
        for kind, t in (gens.length_variants(base, filler=base[-1], upto=40) if base not in light else ()):
            check_text(rec, t, f"length:{kind}", full=False)
            rec.case("length-" + kind, t)
        for pad in ("0", "A", " "):
            for n2 in (1, 2, 7):
                t = base + pad * n2
                check_text(rec, t, "length:pad", full=False)
                rec.case("length-pad", t)
        # (d) all 100 check-digit pairs
        for d in range(100):
            t = base[:2] + f"{d:02d}" + base[4:]
            check_text(rec, t, "pair", full=(d in (0, 1, 99) or (d - int(base[2:4])) % 97 == 0))
            rec.case("pair", t)
        rec.exhaustive.append("single replacement of every position by every alphabet character, per base")
        rec.exhaustive.append("all 100 check-digit pairs per base")
        rec.exhaustive.append("every length 0..40 by truncation/extension, every deletion/duplication/adjacent swap, per base")
    # extreme whitespace (every gap, many runs, hundreds/thousands of padding characters), domain tokens, argument forms
    from .. import dims
    from ..lib import IBAN as _IBAN
    toks = dims.token_dictionary()[:24 if quick else 120]
    for bi, base in enumerate(bases[:2 if quick else 6]):
        for label, t in dims.whitespace_extremes(base, huge=(bi == 0 and cc in ("DE", "GB", "LC", "RU", "NO", "MT"))):
            check_text(rec, t, f"ws-extreme:{label}", full=True)
            rec.case("ws-extreme-valid", (cc, label, bi), {"label": label, "len": len(t), "base": base} if bi == 0 and label == "every-gap-space" else None)
            bad = t.replace(base[5], "-", 1) if base[5] in t else t
            check_text(rec, bad, f"ws-extreme-bad:{label}", full=False)
            rec.case("ws-extreme-invalid", (cc, label, bi, "bad"))
        if bi == 0 and (cc in ("DE", "FR", "GB", "NO", "LC") or o.countries().index(cc) % 8 == 0):
            for label, t in dims.content_extremes(base):
                check_text(rec, t, f"content-extreme:{label}", full=True)
                rec.case("content-extreme", (cc, label))
        for label, t in dims.token_variants(base, toks):
            check_text(rec, t, f"token:{label}", full=False)
            rec.case(label, t, t if (bi == 0 and cc == "DE" and label == "token-prefix") else None)
        texts = [base, base.lower(), base[:2] + "00" + base[4:], base[:-1], " " + base + " "]
        d = int(base[2:4])
        texts += [base[:2] + f"{a:02d}" + base[4:] for a in (d - 97, d + 97) if 0 <= a <= 99]
        for t in texts:
            want = oracle().accept(t)
            for form, v in dims.arg_forms(t, _IBAN):
                # the same text handed over as a str subclass / as an (unvalidated) IBAN object is still that text
                got = check_text(rec, v, f"argform:{form}", full=True)
                rec.case(f"argform-{form}", (t, form), {"text": t, "form": form} if bi == 0 else None)
    rec.exhaustive.append("whitespace in every gap / 300-70000 padding characters, token dictionary x 4 separators, per base")
    # IBANs whose bank / branch / account fields hold the literals of the source (vlib/dims.py: literal_dictionary)
    from ._shared import literal_bbans
    for lits_, b in literal_bbans(cc, rng):
        t = g.iban_of(cc, b)
        if check_text(rec, t, "source-literals", full=False) is not True:
            raise HarnessError(f"oracle rejects its own construction {t}")
        rec.case("source-literals", t)
    # variable whitespace/lower-case rendering of an accepted text must be accepted (normalisation first)
    for base in bases[:2]:
        t = " ".join(base[i:i + 4] for i in range(0, len(base), 4)).lower()
        if check_text(rec, t, "format", full=True) is not True:
            raise HarnessError("oracle rejects a formatted valid IBAN")
        rec.case("valid-formatted-lower", t, t)
        printed = t.upper()
        for w in gens.WHITESPACE:
            for v in (printed + w, w + printed, printed + w + w, t + w, base + w, w + base):
                if check_text(rec, v, "format-affix", full=True) is not True:
                    raise HarnessError("oracle rejects a printed valid IBAN with surrounding whitespace")
                rec.case("valid-formatted-affix", v)
    return rec


_PREFIX_CHARS = None


def prefix_chars():
    global _PREFIX_CHARS
    if _PREFIX_CHARS is None:
        extra = ["\u00df", "\u0131", "\u017f", "\u212a", "\uff21", "\u0410", "\u0395", "\u0663", "\uff10", "\u01c6", "\ufb01", "\xa0"]
        _PREFIX_CHARS = [chr(c) for c in range(65, 91)] + [chr(c) for c in range(97, 123)] + list("0123456789") + extra
    return _PREFIX_CHARS


def shard_prefix(arg):
    """(e) every two-character prefix in front of conforming tails."""
    first, seed = arg
    import random
    rng = random.Random(f"{seed}:C01:prefix:{first}")
    rec = Rec()
    o, g = oracle(), gen()
    ccs = o.countries()
    for second in prefix_chars():
        p = first + second
        n = norm(p)
        tails = []
        if n[:2] in o.table and len(n) == 2:
            cc = n[:2]
            b = g.bban(cc, rng)
            tails.append(("own", g.iban_of(cc, b)[2:]))
            other = rng.choice([c for c in ccs if o.bban_length(c) != o.bban_length(cc)])
            tails.append(("foreign", g.iban(other, rng)[2:]))
        else:
            for _ in range(2):
                other = rng.choice(ccs)
                tails.append(("foreign", g.iban(other, rng)[2:]))
        for kind, tail in tails:
            t = p + tail
            want = check_text(rec, t, f"prefix:{kind}", full=False)
            rec.case("prefix-accepted" if want else "prefix-rejected", t if (want or not t.isascii()) else None,
                     t)
    rec.exhaustive.append("every two-character prefix over A-Z a-z 0-9 and 12 non-ASCII characters")
    return rec


def shard_codepoints(arg):
    """(f) every code point of the code space at one BBAN position of a valid IBAN."""
    lo, hi, seed = arg
    from ._shared import codepoint_texts
    rec = Rec()
    for ch, equiv, t in codepoint_texts(lo, hi, seed):
        want = check_text(rec, t, "codepoint", full=equiv)
        rec.evals += 1
        rec.nt.add(hash(t))
        rec.classes["codepoint-accepted" if want else ("codepoint-ascii-equivalent" if equiv else "codepoint")] += 1
    rec.exhaustive.append("every code point 0..0x10FFFF at one BBAN position of one valid IBAN (characters with an ASCII "
                          "equivalent under NFC/NFD/NFKC/NFKD/case mappings replace that very letter or digit)")
    return rec


def text_strategy():
    from hypothesis import strategies as st
    o, g = oracle(), gen()
    ccs = o.countries()
    alpha = gens.alphabet_quick()

    @st.composite
    def near_valid(draw):
        cc = draw(st.sampled_from(ccs))
        r = draw(st.randoms(use_true_random=False))
        t = g.iban(cc, r)
        k = draw(st.integers(0, 3))
        for _ in range(k):
            op = draw(st.sampled_from(["rep", "del", "ins", "swap", "case", "ws"]))
            if not t:
                break
            i = draw(st.integers(0, len(t) - 1))
            if op == "rep":
                t = t[:i] + draw(st.sampled_from(alpha)) + t[i + 1:]
            elif op == "del":
                t = t[:i] + t[i + 1:]
            elif op == "ins":
                t = t[:i] + draw(st.sampled_from(alpha)) + t[i:]
            elif op == "swap" and i + 1 < len(t):
                t = t[:i] + t[i + 1] + t[i] + t[i + 2:]
            elif op == "case":
                t = t[:i] + t[i].swapcase() + t[i + 1:]
            elif op == "ws":
                t = t[:i] + draw(st.sampled_from(gens.WHITESPACE)) + t[i:]
        return ("near", t)

    anytext = st.text(alphabet=st.characters(codec=None, exclude_categories=()), max_size=40).map(lambda t: ("text", t))
    alnumtext = st.text(alphabet=st.sampled_from(ALNUM + "abcxyz \t"), max_size=40).map(lambda t: ("alnum", t))
    prefixed = st.tuples(st.sampled_from(ccs), st.text(alphabet=st.sampled_from("0123456789AZ"), min_size=0, max_size=34)
                         ).map(lambda p: ("prefixed", p[0] + p[1]))
    return st.one_of(near_valid(), near_valid(), anytext, alnumtext, prefixed)


def hyp_body(rec, v):
    kind, t = v
    want = check_text(rec, t, f"hyp:{kind}", full=True)
    nt = want or not t.isascii() or kind == "near"
    rec.case(f"hyp-{kind}" + ("-accepted" if want else ""), t if nt else None, t if kind != "text" else None)


def run(ctx):
    o = oracle()
    from ._shared import selftest_iban
    ctx.extra["oracle_selftest"] = selftest_iban()
    ctx.rule = ("Texts: for each of the bundled countries a set of oracle-constructed valid IBANs (random, all-minimum, "
                "all-maximum [, letters-only, digits-only]); around each the complete single-replacement neighbourhood "
                "(every position x every character of alphabet W), every length 0..40, every deletion/duplication/"
                "adjacent swap, all 100 check-digit pairs; every two-character prefix over 74 characters in front of "
                "conforming tails; every code point 0..0x10FFFF at one BBAN position; Hypothesis near-valid k<=3 edit chains, arbitrary Unicode text, alnum text, "
                "country-prefixed text. Non-trivial = accepted by the reference, or one edit from an accepted text, or "
                "containing a non-ASCII character; distinct by text.")
    ctx.explanation = ("Oracle: independent ISO 13616 reference (own table merge of the JSON files on disk, own structure "
                       "parser/matcher, own mod 97-10). Relation: IBAN(t) succeeds <=> reference accepts; accepted compact "
                       "form == norm(t) in [A-Z0-9]{<=34}; constructor, validate() and is_valid agree.")
    ctx.assumptions = ["whitespace = str.isspace, upper-casing = str.upper (the statement's normalisation)",
                       "exhaustive only within the named neighbourhoods of the sampled bases"]
    rng = ctx.rng("alphabet")
    alphabet = gens.alphabet_quick() if ctx.quick else gens.alphabet_thorough(rng, 2000)
    ctx.extra["alphabet_size"] = len(alphabet)
    ctx.extra["countries"] = len(o.table)
    import vlib.lib  # noqa: F401  (import the library before forking)
    ctx.pmap(shard_country, [(cc, ctx.seed, ctx.tier, alphabet) for cc in o.countries()])
    ctx.pmap(shard_prefix, [(c, ctx.seed) for c in prefix_chars()])
    ctx.pmap(shard_codepoints, [(lo, hi, ctx.seed) for lo, hi in gens.codepoint_chunks(64)])
    ctx.hyp_parallel(text_strategy, hyp_body, ctx.pick(8000, 400000), name="C01-text")
    if not ctx.quick:
        from ..engines import fuzz
        fuzz.run_campaign(ctx.rec, "iban-c01", 120000, ctx.seed, ctx.prop)   # secondary engine: coverage-guided, oracle inside
    from ._configs import stage as _config_stage
    _config_stage(ctx, ['parse'])
    ctx.require_classes("insert-accepted", "insert-rejected", "ws-extreme-valid", "ws-extreme-invalid", "token-prefix", "token-suffix", "token-infix",
                        "argform-userstr", "argform-own-object",
                        "valid", "replace-nonascii", "replace-ascii", "replace-accepted", "pair", "length-trunc",
                        "length-extend", "prefix-accepted", "prefix-rejected", "hyp-near", "hyp-text", "codepoint", "codepoint-ascii-equivalent",
                        "codepoint-accepted", "valid-formatted-affix", "source-literals", "content-extreme")
