"""C09 Computed national check digits validate; parsing and rebuilding round-trips (DESIGN 7/C09)."""
from __future__ import annotations

from ..oracles import nat as onat
from ..oracles.core import COMPONENTS
from ..runner import HarnessError, Rec
from ._shared import gen, oracle
from .c08 import conforming, field_info


def check_built(rec: Rec, cc, how, args, obj_fn):
    """(a) whatever the library builds for a field country passes national validation and the independent reference."""
    from ..lib import IBAN, SchwiftyException, frame_of
    o = oracle()
    inp = {"cc": cc, "how": how, "args": args}
    try:
        obj = obj_fn()
    except SchwiftyException:
        return "err"
    except Exception as e:  # noqa: BLE001
        rec.fail(f"escape|{how}|{type(e).__name__}|{frame_of(e)}", "build_total", inp, "IBAN or library error",
                 f"{type(e).__name__}: {e}")
        return "crash"
    s = str(obj)
    if not o.accept_norm(s) or s[:2] != cc:
        rec.fail(f"built_invalid_iban|{how}", "built_valid", inp, "valid IBAN of " + cc, s)
        return "ok"
    try:
        IBAN(s, validate_bban=True)
        lib_ok = True
    except SchwiftyException as e:
        lib_ok = f"{type(e).__name__}: {e}"
    ref = onat.ref(cc, s[4:], o.positions(cc))
    if lib_ok is not True:
        rec.fail(f"compute_vs_validate|{cc}|{how}", "built_passes_national_validation", {**inp, "iban": s}, True, lib_ok)
    if ref is False:
        rec.fail(f"compute_vs_reference|{cc}|{how}", "built_passes_reference", {**inp, "iban": s}, "reference accepts", False)
    return "ok"


def check_rebuild(rec: Rec, cc, bban, only_if_accepted=False):
    """(b) components read off a nationally valid IBAN rebuild the same BBAN (outside filler positions).

    only_if_accepted: the base is whatever the LIBRARY accepts nationally (a text it rejects is not a base; whether the
    verdict itself is right is C06's question) - this is where "computing and validating agree" is decided for values of
    the check field that the computation never produces."""
    from ..lib import BBAN, IBAN, SchwiftyException, frame_of
    o, g = oracle(), gen()
    text = g.iban_of(cc, bban)
    inp = {"cc": cc, "bban": bban}
    if only_if_accepted:
        inp["only_if_accepted"] = True
    if cc == "DE":
        # German national validity depends on the bank: a random bank code is almost always unlisted (accepted); when it does
        # hit a listed bank, the account has to satisfy that bank's method to be a nationally valid base (precondition of (b))
        from ..oracles import de as ode
        from .c07 import state as de_state
        es = de_state()["idx"].get(("DE", bban[:8]))
        m = es[0].get("checksum_algo") if es else None
        if m is not None and (m not in ode.METHODS or ode.ref(m, bban[8:]) is not True):
            rec.excluded["German base hit a listed bank whose method rejects (or is undecided about) the account: not a nationally valid base"] += 1
            return
    if only_if_accepted:
        try:
            IBAN(text, validate_bban=True)
        except SchwiftyException:
            return "rejected"
        except Exception:  # noqa: BLE001 - an escape here is C05's / C06's finding; not a base
            return "rejected"
    try:
        iban = IBAN(text, validate_bban=True)
        comps = {k: getattr(iban, k) for k in COMPONENTS}
        ne = {k: v for k, v in comps.items() if v}
        rebuilt = BBAN.from_components(cc, **ne)
    except SchwiftyException as e:
        rec.fail(f"rebuild_raises|{cc}|{type(e).__name__}", "rebuild_roundtrip", inp, bban, f"{type(e).__name__}: {e}")
        return
    except Exception as e:  # noqa: BLE001
        rec.fail(f"escape|rebuild|{type(e).__name__}|{frame_of(e)}", "rebuild_roundtrip", inp, bban, f"{type(e).__name__}: {e}")
        return
    covered = set()
    for k, rng in o.positions(cc).items():
        covered.update(range(rng[0], rng[1]))
    r = str(rebuilt)
    if len(r) != len(bban) or any(r[i] != bban[i] for i in covered):
        rec.fail(f"rebuild_differs|{cc}", "rebuild_roundtrip", {**inp, "components": ne}, bban, r)
    elif getattr(rebuilt, "country_code", None) != cc:
        rec.fail("rebuild_country", "rebuild_roundtrip", inp, cc, getattr(rebuilt, "country_code", None))


def replay(rec, case):
    if case["input"].get("origin") == "configurations":
        from ._configs import replay as _r
        return _r(rec, case)
    from random import Random
    from ..lib import IBAN
    i = case["input"]
    if "bban" in i:
        check_rebuild(rec, i["cc"], i["bban"], only_if_accepted=bool(i.get("only_if_accepted")))
    elif i["how"].endswith("hostile-registry"):
        hostile_registry(rec, case.get("seed", 1), case.get("tier", "quick"))
    elif i["how"].endswith("|country-code-spelling"):
        from ..lib import BBAN
        a = i["args"]
        sp = a["country_code"]
        ne = {k: a[k] for k in ("bank_code", "branch_code", "account_code") if a.get(k)}
        fn = {"generate": lambda: IBAN.generate(sp, bank_code=a["bank_code"], account_code=a["account_code"], branch_code=a["branch_code"]),
              "from_components": lambda: IBAN.from_bban(i["cc"], str(BBAN.from_components(sp, **ne))),
              "random": lambda: IBAN.random(sp, random=Random(a["seed"]), use_registry=a.get("use_registry", True))}[i["how"].split("|")[0]]
        check_built(rec, i["cc"], i["how"], a, fn)
    elif i["how"] == "from_components+ncd":
        from ..lib import BBAN
        a = i["args"]
        check_built(rec, i["cc"], i["how"], a, lambda: IBAN.from_bban(i["cc"], BBAN.from_components(i["cc"], **a)))
    elif i["how"] == "generate":
        a = i["args"]
        check_built(rec, i["cc"], "generate", a, lambda: IBAN.generate(i["cc"], bank_code=a["bank_code"],
                    account_code=a["account_code"], branch_code=a["branch_code"]))
    else:
        a = i["args"]
        check_built(rec, i["cc"], i["how"], a,
                    lambda: IBAN.random(i["cc"], random=Random(a["seed"]), use_registry=a["use_registry"]))


def shard_field(arg):
    cc, seed, tier = arg
    import random
    from ..lib import IBAN
    rng = random.Random(f"{seed}:C09:{cc}")
    rec = Rec()
    fi = field_info(cc)
    n = 400 if tier == "quick" else 20000
    ok = 0
    for k in range(n):
        vals = {}
        short = False
        for name in ("bank_code", "branch_code", "account_code"):
            a, e, cl = fi[name]
            w = e - a
            if w == 0:
                vals[name] = ""
                continue
            m = k % 4
            width = w if m in (0, 1) else rng.randrange(1, w + 1)
            if k % 16 in (5, 10, 15) and name == ("bank_code", "branch_code", "account_code")[(k % 16) // 5 - 1]:
                width = 0           # a component left out (the field is filled by padding): digits are computed over what is built
            short = short or width < w
            vals[name] = conforming(rng, cl, width) if width else ""
            if not width:
                rec.classes["generate-component-omitted"] += 1
        res = check_built(rec, cc, "generate", vals,
                          lambda: IBAN.generate(cc, bank_code=vals["bank_code"], account_code=vals["account_code"],
                                                branch_code=vals["branch_code"]))
        ok += res == "ok"
        letter = any(c.isalpha() for v in vals.values() for c in v)
        rec.case(f"generate-{res}", (cc, tuple(vals.values())) if (short or letter) else None,
                 {"cc": cc, **vals, "outcome": res} if k < 2 else None)
    # building through BBAN.from_components with a (wrong) value for the national check field supplied as well: the field is
    # "separately computed", so whatever the library returns must still be nationally valid
    from ..lib import BBAN
    o = oracle()
    fld = o.positions(cc).get("national_checksum_digits")
    if fld:
        width = fld[1] - fld[0]
        cls_ = gen().classes(cc)[fld[0]]
        for k in range(40 if tier == "quick" else 1500):
            vals = {}
            for name in ("bank_code", "branch_code", "account_code"):
                a, e, cl = fi[name]
                if e - a:
                    vals[name] = conforming(rng, cl, e - a)
            wrong = "".join(rng.choice("0123456789" if cls_ == "n" else "ABCDEFGHIJKLMNOPQRSTUVWXYZ") for _ in range(width))
            args = {**vals, "national_checksum_digits": wrong if k % 4 else wrong[:-1] or "0"}
            res = check_built(rec, cc, "from_components+ncd", args,
                              lambda: IBAN.from_bban(cc, BBAN.from_components(cc, **args)))
            rec.case(f"from_components-ncd-{res}", (cc, tuple(args.values())))
    # other spellings of the country code (lower case, mixed case, padded): whether the library declines them or takes them,
    # what it builds is nationally valid all the same
    for sp in (cc.lower(), cc[0] + cc[1].lower(), " " + cc, cc + " ", cc.lower() + "\t"):
        for k in range(6 if tier == "quick" else 60):
            vals = {}
            for name in ("bank_code", "branch_code", "account_code"):
                a, e, cl = fi[name]
                vals[name] = conforming(rng, cl, e - a) if e - a else ""
            ne = {k_: v for k_, v in vals.items() if v}
            sd = rng.randrange(2 ** 31)
            for how, fn in (("generate", lambda: IBAN.generate(sp, bank_code=vals["bank_code"], account_code=vals["account_code"],
                                                               branch_code=vals["branch_code"])),
                            ("from_components", lambda: IBAN.from_bban(cc, str(BBAN.from_components(sp, **ne)))),
                            ("random", lambda: IBAN.random(sp, random=random.Random(sd), use_registry=bool(k % 2)))):
                res = check_built(rec, cc, how + "|country-code-spelling", {"country_code": sp, **vals, "seed": sd, "use_registry": bool(k % 2)}, fn)
                rec.case(f"cc-spelling-{res}", (cc, sp, how, k))
                rec.classes["cc-spelling"] += 1
    if ok == 0:
        raise HarnessError(f"{cc}: generate never succeeded; (a) would be vacuous")
    rec.classes[f"generate-success-{cc}"] = ok
    okr = 0
    for s in range(60 if tier == "quick" else 3000):
        for use_registry in (True, False):
            sd = rng.randrange(2 ** 31)
            res = check_built(rec, cc, "random", {"seed": sd, "use_registry": use_registry},
                              lambda: IBAN.random(cc, random=random.Random(sd), use_registry=use_registry))
            okr += res == "ok"
            rec.case(f"random-{res}", (cc, sd, use_registry), {"cc": cc, "seed": sd, "use_registry": use_registry} if s == 0 else None)
    rec.classes[f"random-success-{cc}"] = okr
    return rec


def shard_rebuild(arg):
    cc, seed, tier = arg
    import random
    rng = random.Random(f"{seed}:C09r:{cc}")
    rec = Rec()
    g, o = gen(), oracle()
    n = 150 if tier == "quick" else 6000
    pos = o.positions(cc)
    rich = len(pos) >= 3 or "national_checksum_digits" in pos
    for k in range(n):
        b = g.natvalid_bban(cc, rng, "random" if k % 3 else "letters")
        if b is None:
            raise HarnessError(f"no nationally valid BBAN for {cc}")
        check_rebuild(rec, cc, b)
        rec.case("rebuild-rich" if rich else "rebuild", (cc, b) if rich else None, {"cc": cc, "bban": b} if k == 0 else None)
    return rec


def shard_checkfield(arg):
    """Every value of the national check field over bases whose computed value lies at the ends of its range (and some in
    the middle): whatever the library accepts nationally must be reproduced by rebuilding from its components."""
    cc, seed, tier = arg
    import random
    rng = random.Random(f"{seed}:C09f:{cc}")
    rec = Rec()
    g, o = gen(), oracle()
    pos = o.positions(cc)
    fld = onat.check_field(pos)
    if fld is None or onat.missing_fields(cc, pos):
        return rec
    a, e = fld
    cl = g.classes(cc)
    width = e - a
    values = [f"{i:0{width}d}" for i in range(10 ** width)] if cl[a] == "n" else list("ABCDEFGHIJKLMNOPQRSTUVWXYZ")
    by_value = {}
    for k in range(1500 if tier == "quick" else 20000):
        b = g.natvalid_bban(cc, rng, "random" if k % 3 else "letters")
        if b is not None:
            by_value.setdefault(b[a:e], []).append(b)
    seen = sorted(by_value)
    ends = seen[:3] + seen[-3:]
    middle = rng.sample(seen, min(len(seen), 6 if tier == "quick" else 40))
    per = 2 if tier == "quick" else 6
    for v0 in dict.fromkeys(ends + middle):
        for b in by_value[v0][:per]:
            for v in values:
                r = check_rebuild(rec, cc, b[:a] + v + b[e:], only_if_accepted=True)
                edge = v0 in ends
                rec.case("checkfield-value-accepted" if r != "rejected" else "checkfield-value-rejected",
                         (cc, b, v) if (edge or r != "rejected") else None,
                         {"cc": cc, "bban": b[:a] + v + b[e:], "only_if_accepted": True} if (v == v0 and b is by_value[v0][0]) else None)
            rec.case("checkfield-base-at-end-of-range" if v0 in ends else "checkfield-base", (cc, b))
    return rec


def hostile_registry(rec: Rec, seed, tier):
    """Registry-based random draws in a copy of the package whose bank registry lists, for the countries with a national
    algorithm, codes that do NOT conform nationally (random digits where a listed code embeds a check digit, e.g. Poland's
    sort codes): what is drawn must pass the national check all the same - the digits are computed, not copied."""
    import random
    from ..engines.pkgcopy import PackageCopy
    from ..oracles import reg as oreg
    from ..oracles.core import repo_root
    rng = random.Random(f"{seed}:C09:hostile-registry")
    o = oracle()
    widths = {}
    for (c_, code) in oreg.index_by_code(oreg.load_banks()):
        widths.setdefault(c_, set()).add(len(code))
    rows = []
    ccs = [cc for cc in sorted(onat.FIELD) if cc in o.table and o.positions(cc).get("bank_code")]   # countries whose digits the library computes
    for cc in ccs:
        a, e = o.positions(cc)["bank_code"]
        cl = gen().classes(cc)
        lookup = o.table[cc].get("bic_lookup_components", ["bank_code"])
        key_w = sum(o.positions(cc)[k][1] - o.positions(cc)[k][0] for k in lookup if k in o.positions(cc))
        for w_ in sorted({e - a, key_w} | widths.get(cc, set())):
            for _ in range(3):
                code = "".join(rng.choice("0123456789" if cl[min(a + i, len(cl) - 1)] == "n" else "ABCDEFGHJK") for i in range(w_))
                rows.append({"country_code": cc, "bank_code": code, "name": "Hostile", "short_name": "H", "bic": "HOST%s2H" % cc,
                             "primary": True})
    with PackageCopy(repo_root(), bank_files={"hostile_national.json": rows}) as pc:
        ops = [{"op": "random", "cc": cc, "seed": rng.randrange(10 ** 6), "use_registry": True}
               for cc in ccs for _ in range(12 if tier == "quick" else 200)]
        res = pc.query(ops)
        if isinstance(res, dict):
            rec.fail("copy_import_fails|hostile-registry", "build_total", {"cc": "", "how": "hostile-registry", "args": {}}, "imports",
                     res["import_error"][-300:])
            return
        for op, r in zip(ops, res):
            cc = op["cc"]
            inp = {"cc": cc, "how": "random|hostile-registry", "args": {"seed": op["seed"], "use_registry": True}, "rows": [x for x in rows if x["country_code"] == cc]}
            rec.case("hostile-registry-draw", (cc, op["seed"]))
            if "crash" in r:
                rec.fail(f"escape|hostile-registry|{r['crash']}", "build_total", inp, "IBAN or library error", r)
            elif "ok" in r:
                s_ = r["ok"]
                if not o.accept_norm(s_) or s_[:2] != cc:
                    rec.fail("built_invalid_iban|hostile-registry", "built_valid", inp, "valid IBAN of " + cc, s_)
                elif onat.ref(cc, s_[4:], o.positions(cc)) is False:
                    rec.fail(f"compute_vs_reference|{cc}|hostile-registry", "built_passes_reference", {**inp, "iban": s_}, "reference accepts", False)


def run(ctx):
    import vlib.lib  # noqa: F401
    o = oracle()
    ctx.rule = ("(a) the 19 countries with a dedicated national check field x conforming components of any width <= field "
                "(digits, and letters where the structure allows) through IBAN.generate, and seeded IBAN.random with and without "
                "registry. (b) every country with published positions x nationally valid BBANs built by the reference -> read "
                "the eight components -> BBAN.from_components. Non-trivial: (a) a component shorter than its field or "
                "containing a letter, and every random draw; (b) country with >= 3 fields or a national field; distinct by input.")
    ctx.explanation = ("Oracle (a): the built IBAN must pass IBAN(..., validate_bban=True) AND the independent national "
                       "reference (so compute and validate cannot be wrong in the same way). Oracle (b): equality with the "
                       "original BBAN on all positions covered by a component; country code preserved.")
    ctx.assumptions = ["German nationally valid = random (mostly unlisted) bank codes, which national validation accepts",
                       "Norway accounts starting 00 are not generated on the rebuild side (reference undecided)"]
    ctx.pmap(shard_field, [(cc, ctx.seed, ctx.tier) for cc in onat.FIELD])
    with_pos = [cc for cc in o.countries() if o.positions(cc)]
    ctx.pmap(shard_rebuild, [(cc, ctx.seed, ctx.tier) for cc in with_pos])
    ctx.pmap(shard_checkfield, [(cc, ctx.seed, ctx.tier) for cc in onat.FIELD])
    ctx.extra["generate_success"] = {cc: ctx.rec.classes.get(f"generate-success-{cc}", 0) for cc in onat.FIELD}
    ctx.extra["random_success"] = {cc: ctx.rec.classes.get(f"random-success-{cc}", 0) for cc in onat.FIELD}
    from ._configs import stage as _config_stage
    _config_stage(ctx, ['national', 'generate'])
    hostile_registry(ctx.rec, ctx.seed, ctx.tier)
    ctx.require_classes("hostile-registry-draw", "generate-component-omitted", "cc-spelling", "from_components-ncd-ok", "checkfield-value-accepted", "checkfield-value-rejected", "checkfield-base-at-end-of-range", "generate-ok", "random-ok", "rebuild-rich", "rebuild",
                        *[f"random-success-{cc}" for cc in onat.FIELD])
