"""C14 Concurrent use gives every caller the answer it would get alone (DESIGN 7/C14)."""
from __future__ import annotations

import json

from ..engines import sched
from ..oracles import de as ode
from ..oracles import reg as oreg
from ..oracles.core import canonical_digits, repo_root
from ..runner import HarnessError, Rec
from ._shared import gen, oracle

# ------------------------------------------------------------------------------------------------ call descriptors
# A call is a JSON-able descriptor so that inputs and schedule shrink / replay together.

def make_call(d):
    """Descriptors are those of vlib.calls (so that the same call can run in a fork of the pristine zygote)."""
    from .. import calls
    return lambda: calls.outcome(d)


_ALONE = {}
_BUDGET = {"t_end": None}


def start_budget(tier, quick_s=90, thorough_s=400):
    import time
    _BUDGET["t_end"] = time.time() + (quick_s if tier == "quick" else thorough_s)


def out_of_budget(rec=None):
    import time
    if _BUDGET["t_end"] is not None and time.time() > _BUDGET["t_end"]:
        if rec is not None and "budget" not in rec.classes:
            rec.classes["budget"] += 1
            rec.notes.append("a C14 shard stopped at its time budget (exploration ended early; not a verdict)")
        return True
    return False


def alone(d, opcode=False):
    key = (json.dumps(d, sort_keys=True), opcode)
    if key not in _ALONE:
        if len(_ALONE) > 50000:
            _ALONE.clear()
        _ALONE[key] = sched.run_alone(make_call(d), repo_root(), opcode)
    return _ALONE[key]


def check_schedule(rec: Rec, descs, schedule, origin, opcode=False):
    """Run the calls under the schedule; every outcome must equal the outcome of the call run alone."""
    expected = [alone(d, opcode) for d in descs]
    for d, (out, _) in zip(descs, expected):
        if out[0] == "sched":
            raise HarnessError(f"scheduler failed on a single call {d}")
    inp = {"calls": descs, "schedule": [list(p) for p in schedule], "opcode": opcode, "origin": origin}
    try:
        got, info = sched.run_concurrently([make_call(d) for d in descs], schedule, repo_root(), opcode)
    except sched.SchedulerError as e:
        raise HarnessError(f"scheduler error: {e} on {inp}")
    bad = [i for i, (g, (w, _)) in enumerate(zip(got, expected)) if g != w]
    if bad:
        # determinism of the harness: the same schedule must reproduce the same outcomes - unless the interleaving left
        # library state behind (then the calls run alone no longer give their memoised answers either)
        got2, _ = sched.run_concurrently([make_call(d) for d in descs], schedule, repo_root(), opcode)
        if got2 != got:
            again = [sched.run_alone(make_call(d), repo_root(), opcode)[0] for d in descs]
            again2 = [sched.run_alone(make_call(d), repo_root(), opcode)[0] for d in descs]
            if again == [w for w, _ in expected] and again2 == again:
                got3, _ = sched.run_concurrently([make_call(d) for d in descs], schedule, repo_root(), opcode)
                if got3 not in (got, got2):
                    raise HarnessError(f"schedule replay is not deterministic: {inp}")
            inp["note"] = "outcomes differ between replays: the interleaving left state behind in the library"
            _ALONE.clear()
        i = bad[0]
        d = descs[i]
        who = d["op"]
        rec.fail(f"interference|{who}|with:{'+'.join(sorted({x['op'] for j, x in enumerate(descs) if j != i}))}",
                 "concurrent_equals_alone", inp, [list(w) for w, _ in expected], [list(g) for g in got])
    effective = [s for s in info["switches"] if s[3]]
    return info, len(effective)


def replay(rec, case):
    i = case["input"]
    if i.get("cold"):
        from ..engines.zygote import Zygote
        zyg = Zygote()
        try:
            want = [["ok", zyg.reference(d)] for d in i["calls"]]
            r = zyg.concurrent(i["calls"], loc_points=[tuple(p) for p in i["loc_points"]], third_party=i.get("third_party", False))
            if r.get("outcomes") != want:
                rec.fail("interference|replay|cold-start", "concurrent_equals_alone", i, want, r.get("outcomes", r))
        finally:
            zyg.close()
        return
    if i.get("burst_lookups"):
        import random
        from ..lib import BIC, SchwiftyException
        A = i["calls"][0]
        keys = list(state()["keys"])
        skip = (A["cc"], A["code"])

        def burst_lookups(seed_):
            r = random.Random(seed_)
            ks = [k for k in keys if k != skip]
            r.shuffle(ks)
            bad = 0
            for cc_, code_ in ks:
                try:
                    BIC.from_bank_code(cc_, code_)
                except SchwiftyException:
                    bad += 1
            return bad
        want = make_call(A)()
        for k in range(3):
            make_call(A)()
            got, _ = sched.run_concurrently([make_call(A), lambda: burst_lookups(i["burst_seed"])], [], repo_root(),
                                            loc_points=[tuple(p) for p in i["loc_points"]], untraced={1})
            if tuple(got[0]) != ("ok", want) or tuple(got[1]) != ("ok", 0):
                rec.fail("interference|replay|burst-of-lookups", "concurrent_equals_alone", i, [["ok", want], ["ok", 0]],
                         [list(x) for x in got])
                return
        return
    if i.get("burst"):
        import random
        from ..lib import IBAN, SchwiftyException
        g, o = gen(), oracle()
        A = i["calls"][0]

        def burst(seed_):
            r = random.Random(seed_)
            bad = 0
            for _ in range(int(i["burst"])):
                try:
                    IBAN(g.iban(r.choice(o.countries()), r))
                except SchwiftyException:
                    bad += 1
            return bad
        want = make_call(A)()
        make_call(A)()
        for k in range(3):
            got, _ = sched.run_concurrently([make_call(A), lambda: burst(i["burst_seed"] + k)], [], repo_root(),
                                            loc_points=[tuple(p) for p in i["loc_points"]], untraced={1})
            if tuple(got[0]) != ("ok", want) or tuple(got[1]) != ("ok", 0):
                rec.fail("interference|replay|burst-while-paused", "concurrent_equals_alone", i, [["ok", want], ["ok", 0]],
                         [list(x) for x in got])
                return
        return
    if i.get("aged"):
        from ..engines.zygote import Zygote
        warm, _ = aged_material(i["aged"], i.get("aged_seed", 1))
        zyg = Zygote()
        try:
            warm()
            run_aged_point(zyg, rec, i["aged"], i.get("aged_seed", 1), i["calls"][0], i["calls"][1], i["loc_points"][0][1])
        finally:
            zyg.close()
        return
    if i.get("loc_points"):
        # same pre-state as in the exploration (calls run alone, call 0 traced), and the schedule a few times in a row:
        # single-slot memos make the outcome depend on which call ran last
        for d in failing_prelude(i["calls"][0].get("cc", "")):
            make_call(d)()
        expected = [alone(d)[0] for d in i["calls"]]
        sched.trace_locations(make_call(i["calls"][0]), repo_root())
        for _ in range(4):
            got, _ = sched.run_concurrently([make_call(d) for d in i["calls"]], [], repo_root(),
                                            loc_points=[tuple(p) for p in i["loc_points"]])
            if list(got) != expected:
                rec.fail("interference|replay|at-location", "concurrent_equals_alone", i, [list(w) for w in expected],
                         [list(g_) for g_ in got])
                return
        return
    check_schedule(rec, i["calls"], [tuple(p) for p in i["schedule"]], "replay", i.get("opcode", False))


# ------------------------------------------------------------------------------------------------ inputs

_STATE = {}


def state():
    if not _STATE:
        from schwifty.checksum import algorithms
        impl = sorted(k.split(":", 1)[1] for k in algorithms if k.startswith("DE:"))
        banks = oreg.load_banks()
        idx = oreg.index_by_code(banks)
        by_method = {}
        for (cc, code), es in sorted(idx.items()):
            if cc == "DE":
                by_method.setdefault(es[0].get("checksum_algo"), []).append(code)
        keys = sorted(k for k in idx if any(e.get("bic") for e in idx[k]))
        _STATE.update(impl=impl, by_method=by_method, keys=keys)
    return _STATE


def directed_accounts(rng, m, n=2):
    """accounts for method m: one whose main remainder is 1 (or 0/10) and one ordinary, when the method has such a notion."""
    out = []
    for want in (1, None, 0):
        for _ in range(300):
            a = f"{rng.randrange(10 ** rng.choice((10, 10, 9, 7))):010d}"
            r = ode.remainder_info(m, a)
            if want is None:
                if r not in (0, 1, 10):
                    out.append(a)
                    break
            elif r == want or r is None:
                out.append(a)
                break
    # for the edge remainders also an account that the method ACCEPTS there (the exception rules of some methods - e.g. the two
    # last digits being equal - make such accounts valid): a borrowed remainder then flips a verdict from accept to reject
    if m in ode.METHODS:
        for want in (1, 0):
            for _ in range(600):
                a = f"{rng.randrange(10 ** 10):010d}"
                if ode.remainder_info(m, a) != want:
                    continue
                hit = None
                for d9 in "0123456789":
                    for d10 in "0123456789":
                        cand = a[:8] + d9 + d10
                        if ode.remainder_info(m, cand) == want and ode.ref(m, cand) is True:
                            hit = cand
                            break
                    if hit:
                        break
                if hit:
                    if hit not in out:
                        out.append(hit)
                    break
    return out


def de_iban(blz, acct):
    b = blz + acct
    return "DE" + canonical_digits("DE", b) + b


def pair_for_method(rng, m):
    accts = directed_accounts(rng, m)
    a, b = rng.sample(accts, 2) if len(accts) >= 2 else (accts[0], accts[0])
    return [{"op": "de", "method": m, "account": a}, {"op": "de", "method": m, "account": b}]


def mixed_call(rng):
    st, g, o = state(), gen(), oracle()
    k = rng.choice(["iban_de", "iban_de", "iban_nat", "generate", "random", "from_bank_code", "iban_bic", "bic", "de"])
    if k == "iban_de":
        m = rng.choice([x for x in st["impl"] if st["by_method"].get(x)])
        blz = rng.choice(st["by_method"][m])
        acct = rng.choice(directed_accounts(rng, m))
        return {"op": "iban", "text": de_iban(blz, acct), "validate_bban": True}
    if k == "iban_nat":
        cc = rng.choice(["BE", "FR", "IT", "ES", "NO", "PL", "CZ", "IS", "FI", "PT", "GB", "NL"])
        b = g.natvalid_bban(cc, rng) if rng.random() < 0.7 else g.bban(cc, rng)
        return {"op": "iban", "text": g.iban_of(cc, b), "validate_bban": True}
    if k == "generate":
        cc = rng.choice(["DE", "BE", "ES", "FR", "IT", "GB", "NO", "PL"])
        from .c08 import conforming, field_info
        fi = field_info(cc)
        return {"op": "generate", "cc": cc, "bank_code": conforming(rng, fi["bank_code"][2], len(fi["bank_code"][2])),
                "account_code": conforming(rng, fi["account_code"][2], rng.randrange(1, len(fi["account_code"][2]) + 1)),
                "branch_code": conforming(rng, fi["branch_code"][2], len(fi["branch_code"][2]))}
    if k == "random":
        return {"op": "random", "cc": rng.choice(["DE", "PL", "SI", "NO", "FR", "", "GB"]), "seed": rng.randrange(2 ** 32),
                "use_registry": rng.random() < 0.6}
    if k == "from_bank_code":
        cc, code = rng.choice(st["keys"])
        return {"op": "from_bank_code", "cc": cc, "code": code if rng.random() < 0.8 else code[:-1]}
    if k == "iban_bic":
        cc, code = rng.choice([x for x in st["keys"] if x[0] in ("DE", "AT", "NL", "CH", "ES")])
        from .c12 import place_key
        t = place_key(o, g, cc, code, rng)
        return {"op": "obj", "create": {"kind": "iban", "text": t or g.iban("DE", rng)}, "what": "bic"}
    if k == "bic":
        return {"op": "bic", "text": rng.choice(["GENODEM1GLS", "GENODEM1", "GENODEM1GL", "XXXXQQ22", "A1B2FR2A"])}
    m = rng.choice(st["impl"])
    return {"op": "de", "method": m, "account": rng.choice(directed_accounts(rng, m))}


# ------------------------------------------------------------------------------------------------ shards

def enumerate_two_preemptions(rec, descs, stride, origin, opcode=False):
    n0 = alone(descs[0], opcode)[1]
    n1 = alone(descs[1], opcode)[1]
    cases = 0
    for a in range(0, n0 + 1, stride):
        if out_of_budget(rec):
            break
        for b in range(1, n1 + 1, stride):
            sch = [(a + 1, 1), (a + 1 + b, 0)] if a > 0 else [(1, 1), (1 + b, 0)]
            info, eff = check_schedule(rec, descs, sch, origin, opcode)
            rec.evals += 1
            cases += 1
            if eff:
                rec.nt.add(hash((json.dumps(descs, sort_keys=True), tuple(sch))))
    return cases


def shard_method(arg):
    m, seed, tier = arg
    import random
    rng = random.Random(f"{seed}:C14:{m}")
    rec = Rec()
    start_budget(tier)
    state()
    quick = tier == "quick"
    stateful = m in ("02", "04", "07", "14", "16", "23", "25", "11", "08", "13", "63", "68", "76", "26", "88", "99")
    pairs = 2 if quick else 3
    # random multi-preemption schedules from the shard PRNG, two and three threads
    for _ in range(20 if quick else 150):
        if out_of_budget(rec):
            break
        k = rng.choice((2, 2, 3))
        descs = [pair_for_method(rng, m)[0] for _ in range(k)]
        total = sum(alone(d)[1] for d in descs)
        sch = sorted({(rng.randrange(1, total + 1), rng.randrange(k)) for _ in range(rng.randrange(1, 8))})
        info, eff = check_schedule(rec, descs, sch, "random")
        rec.case(f"random-{k}-threads", (json.dumps(descs), tuple(sch)) if eff else None)
    for p in range(pairs):
        descs = pair_for_method(rng, m)
        stride = (3 if stateful else 7) if quick else 1
        n = enumerate_two_preemptions(rec, descs, stride, "enum2")
        rec.classes[f"enum-{m}"] += n
        if p == 0:
            rec.sample(f"enum-{m}", {"calls": descs, "schedules": n, "stride": stride})
        if stride == 1:
            rec.exhaustive.append("all schedules with <= 2 preemptions (line granularity) of the method-level call pairs")
    if not quick:
        # opcode granularity samples
        for _ in range(40):
            descs = pair_for_method(rng, m)
            total = sum(alone(d, True)[1] for d in descs)
            sch = sorted({(rng.randrange(1, total + 1), rng.randrange(2)) for _ in range(rng.randrange(1, 6))})
            info, eff = check_schedule(rec, descs, sch, "random-opcode", True)
            rec.case("random-opcode", (json.dumps(descs), tuple(sch), "op") if eff else None)
    return rec


NATIONAL = ("BE", "BA", "ES", "FR", "MC", "IT", "SM", "FI", "NO", "PL", "EE", "PT", "RS", "ME", "MK", "SI", "TL", "MR", "TN",
            "CZ", "SK", "IS")


def national_calls(rng, cc):
    """Calls routed to the national algorithm object of one country: validation (valid / invalid) and generation."""
    from .c08 import conforming, field_info
    g = gen()
    out = []
    for _ in range(2):
        b = g.natvalid_bban(cc, rng)
        if b:
            out.append({"op": "iban", "text": g.iban_of(cc, b), "validate_bban": True})
        out.append({"op": "iban", "text": g.iban(cc, rng), "validate_bban": True})
    fi = field_info(cc)
    out.append({"op": "generate", "cc": cc, "bank_code": conforming(rng, fi["bank_code"][2], len(fi["bank_code"][2])),
                "account_code": conforming(rng, fi["account_code"][2], len(fi["account_code"][2])),
                "branch_code": conforming(rng, fi["branch_code"][2], len(fi["branch_code"][2]))})
    # structurally different inputs of the same country: all-minimum BBAN, account with leading zeros / short account
    out.append({"op": "iban", "text": g.iban(cc, rng, "min"), "validate_bban": True})
    w = len(fi["account_code"][2])
    if w > 3 and set(fi["account_code"][2]) <= set("nc"):
        short = conforming(rng, fi["account_code"][2], w - 2)
        out.append({"op": "generate", "cc": cc, "bank_code": conforming(rng, fi["bank_code"][2], len(fi["bank_code"][2])),
                    "account_code": short, "branch_code": conforming(rng, fi["branch_code"][2], len(fi["branch_code"][2]))})
        out.append({"op": "generate", "cc": cc, "bank_code": conforming(rng, fi["bank_code"][2], len(fi["bank_code"][2])),
                    "account_code": "00" + short[:w - 2], "branch_code": conforming(rng, fi["branch_code"][2], len(fi["branch_code"][2]))})
    return out


def shard_national(arg):
    cc, seed, tier = arg
    import random
    rng = random.Random(f"{seed}:C14:nat:{cc}")
    rec = Rec()
    start_budget(tier, quick_s=90, thorough_s=400)
    quick = tier == "quick"
    for _ in range(10 if quick else 100):
        if out_of_budget(rec):
            break
        k = rng.choice((2, 3))
        descs = [rng.choice(national_calls(rng, cc)) for _ in range(k)]
        total = sum(alone(d)[1] for d in descs)
        sch = sorted({(rng.randrange(1, total + 1), rng.randrange(k)) for _ in range(rng.randrange(1, 8))})
        info, eff = check_schedule(rec, descs, sch, "random-national")
        rec.case("random-national", (json.dumps(descs), tuple(sch)) if eff else None)
    for p in range(3 if quick else 4):
        calls = national_calls(rng, cc)
        descs = rng.sample(calls, 2) if p != 1 else [calls[-1], calls[-3] if len(calls) >= 8 else calls[0]]
        n = enumerate_two_preemptions(rec, descs, 9 if quick else 4, "enum2-national")
        rec.classes[f"enum-national-{cc}"] += n
        if p == 0:
            rec.sample(f"enum-national-{cc}", {"calls": descs, "schedules": n})
    return rec


# ---------------------------------------------------------------------------------------------- location-based preemption

def typo_pair(rng, cc=None):
    """(validation of a single-typo mutant, validation of the valid original): same check digits / same BBAN neighbourhood."""
    g, o = gen(), oracle()
    cc = cc or rng.choice(o.countries())
    base = g.iban(cc, rng)
    i = rng.randrange(4, len(base))
    pool = "0123456789" if base[i].isdigit() else "ABCDEFGHIJKLMNOPQRSTUVWXYZ"
    m = base[:i] + rng.choice([c for c in pool if c != base[i]]) + base[i + 1:]
    flag = rng.random() < 0.3
    return [{"op": "iban", "text": m, "validate_bban": flag}, {"op": "iban", "text": base, "validate_bban": flag}]


def variant91_pair(rng):
    """two method-91 accounts that only the same non-first variant accepts (reference variants of O-de)."""
    from ..oracles.de import pz06
    st = state()
    if "91" not in st["impl"]:
        return None
    found = {}
    for _ in range(20000):
        a = f"{rng.randrange(10 ** 10):010d}"
        A = [int(c) for c in a]
        v3 = sum(x * y for x, y in zip(A[::-1], (2, 3, 4, 0, 5, 6, 7, 8, 9, 10))) % 11
        cands = [pz06(a, (2, 3, 4, 5, 6, 7), 1, 6), pz06(a, (7, 6, 5, 4, 3, 2), 1, 6), 0 if v3 in (0, 1) else 11 - v3,
                 pz06(a, (2, 4, 8, 5, 10, 9), 1, 6)]
        hits = [k for k, c in enumerate(cands) if c == A[6]]
        if len(hits) == 1 and hits[0] > 0:
            found.setdefault(hits[0], []).append(a)
            if len(found[hits[0]]) == 2:
                a1, a2 = found[hits[0]]
                banks = st["by_method"].get("91")
                if banks and rng.random() < 0.5:
                    return [{"op": "iban", "text": de_iban(rng.choice(banks), a1), "validate_bban": True},
                            {"op": "iban", "text": de_iban(rng.choice(banks), a2), "validate_bban": True}]
                return [{"op": "de", "method": "91", "account": a1}, {"op": "de", "method": "91", "account": a2}]
    return None


def first_use_pairs(rng):
    """pairs whose first call in a process may build something lazily: lookups, component reads, generation."""
    st, g, o = state(), gen(), oracle()
    from .c12 import place_key
    out = []
    keys = rng.sample(st["keys"], 3)
    for cc, code in keys:
        t = place_key(o, g, cc, code, rng) if cc in o.table else None
        bic_of = {"op": "from_bank_code", "cc": cc, "code": code}
        out.append([bic_of, {"op": "candidates", "cc": cc, "code": code}])
        if t:
            c = {"kind": "iban", "text": t}
            out.append([{"op": "obj", "create": c, "what": "bic"}, {"op": "obj", "create": c, "what": "bank"}])
            out.append([bic_of, {"op": "obj", "create": c, "what": "bank_name"}])
    out.append([{"op": "obj", "create": {"kind": "bic", "text": "GENODEM1GLS"}, "what": "domestic_bank_codes"},
                {"op": "obj", "create": {"kind": "bic", "text": "MARKDEF1100"}, "what": "exists"}])
    out.append([{"op": "obj", "create": {"kind": "bic", "text": "MARKDEF1100"}, "what": "bank_names"},
                {"op": "from_bank_code", "cc": "DE", "code": "10000000"}])
    # first country-code checks of the process (third-party country database): countries far apart in its order
    out.append([{"op": "bic", "text": "ABCDAF22"}, {"op": "bic", "text": "CABSZWHA"}])
    out.append([{"op": "bic", "text": "GENODEM1GLS", "strict": True}, {"op": "bic", "text": "ABCDZM22XXX"}])
    for cc in rng.sample(o.countries(), 3):
        if o.positions(cc):
            t1, t2 = g.iban(cc, rng), g.iban(cc, rng)
            out.append([{"op": "obj", "create": {"kind": "iban", "text": t1}, "what": "snapshot"},
                        {"op": "obj", "create": {"kind": "iban", "text": t2}, "what": "snapshot"}])
    cc = rng.choice(["DE", "GB", "FR", "PL", "NO", "ES"])
    out.append([{"op": "random", "cc": cc, "seed": 1, "use_registry": True}, {"op": "random", "cc": cc, "seed": 2, "use_registry": True}])
    return out


def failing_prelude(cc):
    """Calls that fail in every documented way (state left behind by a failed call must not disturb later concurrent calls):
    invalid texts, over-long component, unlisted bank code, random draw with unsatisfiable pins (overflow error)."""
    o = oracle()
    out = [{"op": "iban", "text": "DE00123"}, {"op": "bic", "text": "GENODEM1GL"}, {"op": "from_bank_code", "cc": cc or "DE", "code": "?"},
           {"op": "generate", "cc": cc or "DE", "bank_code": "9" * 40, "account_code": "1"}]
    if cc and o.positions(cc).get("account_code"):
        a, e = o.positions(cc)["account_code"]
        out.append({"op": "random", "cc": cc, "seed": 7, "use_registry": False, "pins": {"account_code": "!" * (e - a)}})
        out.append({"op": "random", "cc": cc, "seed": 8, "use_registry": True, "cls": "BBAN", "pins": {"account_code": "-" * (e - a)}})
    return out


def draw_pairs(rng):
    """two seeded draws for the same country (they share whatever generation helpers the library keeps)"""
    out = []
    for cc in rng.sample(["NO", "ES", "DE", "GB", "FR", "PL", "IT", "BE", "NL", "SI"], 3):
        out.append([{"op": "random", "cc": cc, "seed": rng.randrange(1000), "use_registry": rng.random() < 0.5},
                    {"op": "random", "cc": cc, "seed": rng.randrange(1000), "use_registry": rng.random() < 0.5}])
    return out


def level_pairs(rng):
    """IBAN-level pairs (no national algorithm needed): typo pairs, assembling vs parsing, generation vs parsing."""
    g, o = gen(), oracle()
    out = [typo_pair(rng), typo_pair(rng), typo_pair(rng, rng.choice(["DE", "GB", "MT", "FR"]))]
    cc = rng.choice(o.countries())
    b1, t2 = g.bban(cc, rng), g.iban(cc, rng)
    out.append([{"op": "from_bban", "cc": cc, "bban": b1}, {"op": "iban", "text": t2}])
    out.append([{"op": "from_bban", "cc": cc, "bban": b1, "as_object": True}, {"op": "from_bban", "cc": cc, "bban": t2[4:]}])
    out.append([{"op": "bic", "text": "GENODEM1GLS"}, {"op": "bic", "text": "genodem1 gl"}])
    out.append([{"op": "iban", "text": " ".join(t2[i:i + 4] for i in range(0, len(t2), 4)).lower()}, {"op": "bic", "text": "GENODEM1GLS"}])
    p91 = variant91_pair(rng)
    if p91:
        out.append(p91)
    return out


def enumerate_locations_warm(rec, descs, origin):
    """For every distinct library location L of call 0: switch to the other thread at the first arrival at L; the other call
    runs (to its end unless it blocks), then call 0 resumes. Both orders are enumerated by the caller."""
    _, locs = sched.trace_locations(make_call(descs[0]), repo_root())
    expected = [alone(d) for d in descs]
    n = 0
    for L in locs:
        if out_of_budget(rec):
            break
        inp = {"calls": descs, "loc_points": [[0, L, 1, 1]], "schedule": [], "origin": origin, "cold": False}
        try:
            got, info = sched.run_concurrently([make_call(d) for d in descs], [], repo_root(), loc_points=[(0, L, 1, 1)])
        except sched.SchedulerError as e:
            raise HarnessError(f"scheduler error: {e} on {inp}")
        n += 1
        rec.evals += 1
        if any(s_[3] for s_ in info["switches"]) or info["switches"]:
            rec.nt.add(hash((json.dumps(descs, sort_keys=True), L)))
        if [g_ for g_ in got] != [w for w, _ in expected]:
            who = descs[0]["op"]
            rec.fail(f"interference|{who}|with:{descs[1]['op']}|at-location", "concurrent_equals_alone", inp,
                     [list(w) for w, _ in expected], [list(g_) for g_ in got])
            _ALONE.clear()
    return n


def size_pairs():
    """Calls on inputs of extreme size (thousands of characters: beyond every real IBAN, and beyond the interpreter's limits
    for converting digit strings): whatever special path such inputs take is shared by the threads as well."""
    return [
        [{"op": "from_bban", "cc": "DE", "bban": "1" * 5000}, {"op": "from_bban", "cc": "DE", "bban": "2" * 4400}],
        [{"op": "obj", "create": {"kind": "iban", "text": "GB00" + "AZ" * 1300}, "what": "numeric"},
         {"op": "from_bban", "cc": "FR", "bban": "9" * 700}],
        [{"op": "iban", "text": "DE00" + "7" * 4500}, {"op": "iban", "text": " ".join(["NO93"] + ["8601"] * 1200), "allow_invalid": True}],
    ]


def enumerate_locations_two_point(rec, descs, origin, part=0, parts=1):
    """Two-point schedules by location: call 0 runs to its first arrival at La, call 1 runs to its first arrival at Lb, call 0
    runs to its end, call 1 finishes - for every La (of this shard's part) and every Lb. This is the save / modify / restore
    shape: the second thread reads shared state inside the first one's window and acts on it after the window closed."""
    _, locs0 = sched.trace_locations(make_call(descs[0]), repo_root())
    _, locs1 = sched.trace_locations(make_call(descs[1]), repo_root())
    expected = [alone(d) for d in descs]
    n = 0
    for ai, La in enumerate(locs0):
        if ai % parts != part:
            continue
        for Lb in locs1:
            if n > 0 and out_of_budget(rec):
                return n
            pts = [(0, La, 1, 1), (1, Lb, 1, 0)]
            inp = {"calls": descs, "loc_points": [list(p) for p in pts], "schedule": [], "origin": origin, "cold": False}
            try:
                got, info = sched.run_concurrently([make_call(d) for d in descs], [], repo_root(), loc_points=pts)
            except sched.SchedulerError as e:
                raise HarnessError(f"scheduler error: {e} on {origin} {pts}")
            n += 1
            rec.evals += 1
            if len(info["switches"]) >= 2:
                rec.nt.add(hash((json.dumps(descs, sort_keys=True)[:200], La, Lb)))
            if [g_ for g_ in got] != [w for w, _ in expected]:
                rec.fail(f"interference|{descs[0]['op']}|with:{descs[1]['op']}|two-point", "concurrent_equals_alone", inp,
                         [list(w) for w, _ in expected], [list(g_) for g_ in got])
                _ALONE.clear()
    return n


def shard_two_point(arg):
    i, seed, tier = arg
    import random
    rng = random.Random(f"{seed}:C14:two-point")      # the same pairs in every shard; the shards split the first call's locations
    rec = Rec()
    start_budget(tier, quick_s=40, thorough_s=400)
    state()
    pairs = size_pairs()[:1] if tier == "quick" else size_pairs() + level_pairs(rng) + draw_pairs(rng)
    for descs in pairs:
        for order in (descs, descs[::-1]):
            n = enumerate_locations_two_point(rec, order, "two-point", part=i, parts=16)
            rec.classes["two-point-schedules"] += n
            if any(len(str(d.get("bban", d.get("text", "")))) > 1000 for d in order):
                rec.classes["two-point-size-extreme"] += n
    rec.exhaustive.append("every (location of call 0, location of call 1) pair as a two-point schedule, both orders, per pair")
    return rec


def shard_locations(arg):
    i, seed, tier = arg
    import random
    rng = random.Random(f"{seed}:C14:loc:{i}")
    rec = Rec()
    start_budget(tier)
    state()
    pairs = level_pairs(rng) + draw_pairs(rng)
    if tier != "quick":
        pairs += level_pairs(rng) + level_pairs(rng) + draw_pairs(rng)
        pairs += [pair_for_method(rng, m) for m in rng.sample(state()["impl"], 6)]
    for descs in pairs:
        if out_of_budget(rec):
            break
        # failed calls first (for the country the pair is about, if any)
        for d in failing_prelude(descs[0].get("cc", "")):
            make_call(d)()
        rec.classes["failing-prelude"] += 1
        for order in (descs, descs[::-1]):
            n = enumerate_locations_warm(rec, order, "locations-warm")
            rec.classes["loc-warm-schedules"] += n
        rec.classes["loc-warm-pair-" + "+".join(sorted(d["op"] for d in descs))] += 1
    rec.sample("loc-warm", {"calls": pairs[0], "rule": "switch at first arrival at every distinct location of call 0"})
    rec.exhaustive.append("every distinct library location of one call as single preemption point, both orders, per generated pair")
    return rec


def shard_aged(arg):
    """While call A (a value this process has seen before) is paused at a location, the other thread does a *lot* of work:
    a burst of thousands of calls with values never seen in this process (bounded caches fill up, evict, get cleared).
    A switch at every location of A; the burst runs untraced to its end; then A resumes and must still answer as alone."""
    i, seed, tier = arg
    import random
    from ..lib import IBAN, SchwiftyException
    rng = random.Random(f"{seed}:C14:aged:{i}")
    rec = Rec()
    start_budget(tier, quick_s=60, thorough_s=300)
    g, o = gen(), oracle()
    ccs = o.countries()
    n_burst = 2600

    def burst(seed_):
        r = random.Random(seed_)
        bad = 0
        for _ in range(n_burst):
            t = g.iban(r.choice(ccs), r)
            try:
                IBAN(t)
            except SchwiftyException:
                bad += 1
        return bad

    for _ in range(1 if tier == "quick" else 6):
        kind = rng.choice(["iban", "iban-national", "from_bban", "generate"])
        cc = rng.choice(ccs)
        ta = g.iban(cc, rng)
        A = ({"op": "iban", "text": ta} if kind == "iban" else {"op": "from_bban", "cc": cc, "bban": ta[4:]} if kind == "from_bban"
             else {"op": "iban", "text": ta, "validate_bban": True} if kind == "iban-national" else national_calls(rng, "FR")[-1])
        make_call(A)()
        want_a, locs = sched.trace_locations(make_call(A), repo_root())
        for L in locs:
            if out_of_budget(rec):
                break
            bseed = rng.randrange(2 ** 32)
            got, info = sched.run_concurrently([make_call(A), lambda: burst(bseed)], [], repo_root(), loc_points=[(0, L, 1, 1)],
                                               untraced={1})
            rec.evals += 1
            rec.classes["burst-while-paused-schedules"] += 1
            if info["switches"]:
                rec.nt.add(hash((json.dumps(A, sort_keys=True), L, "burst")))
            if tuple(got[0]) != tuple(want_a) or tuple(got[1]) != ("ok", 0):
                rec.fail(f"interference|{A['op']}|with:burst-of-novel-validations", "concurrent_equals_alone",
                         {"calls": [A], "loc_points": [[0, L, 1, 1]], "schedule": [], "origin": "burst-while-paused", "burst": n_burst,
                          "burst_seed": bseed}, [list(want_a), ["ok", 0]], [list(x) for x in got])
                break
    # the same with lookups: A looks up a key it has looked up before; while it is paused, the other thread looks up every
    # other listed key once (tens of thousands of distinct keys: whatever bounded table lookups keep overflows at least once)
    st = state()
    keys = list(st["keys"])

    def burst_lookups(seed_, skip):
        from ..lib import BIC, SchwiftyException
        r = random.Random(seed_)
        ks = [k for k in keys if k != skip]
        r.shuffle(ks)
        bad = 0
        for cc_, code_ in ks:
            try:
                BIC.from_bank_code(cc_, code_)
            except SchwiftyException:
                bad += 1
        return bad

    for _ in range(1 if tier == "quick" else 4):
        cc_a, code_a = rng.choice(keys)
        A = {"op": "from_bank_code", "cc": cc_a, "code": code_a}
        make_call(A)()
        want_a, locs = sched.trace_locations(make_call(A), repo_root())
        for L in locs:
            if rec.classes["burst-of-lookups-while-paused"] > 0 and out_of_budget(rec):
                break
            make_call(A)()          # A's key is known again (the previous burst may have pushed it out)
            bseed = rng.randrange(2 ** 32)
            got, info = sched.run_concurrently([make_call(A), lambda: burst_lookups(bseed, (cc_a, code_a))], [], repo_root(),
                                               loc_points=[(0, L, 1, 1)], untraced={1})
            rec.evals += 1
            rec.classes["burst-of-lookups-while-paused"] += 1
            if info["switches"]:
                rec.nt.add(hash((json.dumps(A, sort_keys=True), L, "burst-lookups")))
            if tuple(got[0]) != tuple(want_a) or tuple(got[1]) != ("ok", 0):
                rec.fail(f"interference|{A['op']}|with:burst-of-lookups", "concurrent_equals_alone",
                         {"calls": [A], "loc_points": [[0, L, 1, 1]], "schedule": [], "origin": "burst-of-lookups", "burst_lookups": len(keys) - 1,
                          "burst_seed": bseed}, [list(want_a), ["ok", 0]], [list(x) for x in got])
                break
    rec.sample("burst-while-paused", {"burst": f"{n_burst} validations of valid IBANs never seen in this process, untraced",
                                      "A": "a call repeated from before, paused at each of its locations in turn"})
    return rec


AGED_N = {"lookup": 140000, "iban": 70000}


def aged_material(kind, seed):
    """(warm-up thunk, held-out never-seen call descriptors). The warm-up fills whatever bounded memo the library keeps with
    AGED_N distinct calls of the kind (more than 2^17 lookups / 2^16 validations); the held-out calls are distinct from all of
    them, so each one misses - and evicts."""
    import random
    rng = random.Random(f"{seed}:C14:aged-material:{kind}")
    st, g, o = state(), gen(), oracle()
    if kind == "lookup":
        keys = list(st["keys"])
        rng.shuffle(keys)
        held = [{"op": "from_bank_code", "cc": cc, "code": code} for cc, code in keys[:160]]
        rest = keys[160:]

        def warm():
            from ..lib import BIC, SchwiftyException
            n = 0
            for cc, code in rest:
                try:
                    BIC.from_bank_code(cc, code)
                except SchwiftyException:
                    pass
                n += 1
            i = 0
            while n < AGED_N[kind]:
                try:
                    BIC.from_bank_code("DE", f"9{i:07d}")       # distinct codes no registry lists
                except SchwiftyException:
                    pass
                i += 1
                n += 1
            return n
        return warm, held
    ccs = o.countries()
    r2 = random.Random(f"{seed}:C14:aged-held:{kind}")
    held = [{"op": "iban", "text": g.iban(r2.choice(ccs), r2), "validate_bban": True} for _ in range(160)]
    seen = {d["text"] for d in held}

    def warm():
        from ..lib import IBAN, SchwiftyException
        r = random.Random(f"{seed}:C14:aged-warm")
        n = 0
        while n < AGED_N[kind]:
            t = g.iban(r.choice(ccs), r)
            if t in seen:
                continue
            try:
                IBAN(t, validate_bban=(n % 4 == 0))
            except SchwiftyException:
                pass
            n += 1
        return n
    return warm, held


def run_aged_point(zyg, rec, kind, seed, A, B, L):
    want = [["ok", zyg.reference(A)], ["ok", zyg.reference(B)]]
    got, info = sched.run_concurrently([make_call(A), make_call(B)], [], repo_root(), loc_points=[(0, L, 1, 1)])
    rec.evals += 1
    rec.classes["aged-process-schedules"] += 1
    if info["switches"]:
        rec.nt.add(hash((json.dumps([A, B], sort_keys=True), L, "aged")))
    got = json.loads(json.dumps([list(x) for x in got]))
    if got != json.loads(json.dumps(want)):
        rec.fail(f"interference|{A['op']}|with:{B['op']}|aged-process", "concurrent_equals_alone",
                 {"calls": [A, B], "loc_points": [[0, L, 1, 1]], "schedule": [], "origin": "aged-process", "aged": kind, "aged_seed": seed,
                  "warm_up": f"{AGED_N[kind]} distinct calls of the kind before the pair"}, want, got)
        return False
    return True


def shard_aged_pairs(arg):
    """An old process: after more distinct calls than any plausible memo holds, two never-seen calls of the same kind run
    concurrently, with a switch at every location of the first one (a fresh pair per location). Expected outcomes come from
    single calls in forks of the pristine zygote."""
    kind, seed, tier = arg
    from ..engines.zygote import Zygote
    rec = Rec()
    start_budget(tier, quick_s=60, thorough_s=300)
    warm, held = aged_material(kind, seed)
    zyg = Zygote()
    try:
        warm()
        _, locs = sched.trace_locations(make_call(held[0]), repo_root())
        k = 1
        for rep in range(1 if tier == "quick" else 3):
            for L in locs:
                if (k > 1 and out_of_budget(rec)) or k + 1 >= len(held):
                    break
                if not run_aged_point(zyg, rec, kind, seed, held[k], held[k + 1], L):
                    break
                k += 2
        rec.sample("aged-process", {"kind": kind, "warm_up_calls": AGED_N[kind], "locations": len(locs)})
    finally:
        zyg.close()
    return rec


_OWN = []


def own_files():
    import os
    if not _OWN:
        names = set()
        for dirpath, _, files in os.walk(os.path.join(repo_root(), "schwifty")):
            names.update(f for f in files if f.endswith(".py"))
        _OWN.append(names)
    return _OWN[0]


def shard_cold(arg):
    """The same enumeration in forks of the pristine zygote: both calls are the first calls of a fresh process."""
    if arg[0] == "aged":
        return shard_aged(arg[1:])
    i, seed, tier = arg
    import random
    import time
    from ..engines.zygote import Zygote
    rng = random.Random(f"{seed}:C14:cold:{i}")
    rec = Rec()
    state()
    zyg = Zygote()
    # coverage is limited by a trial count (the same on a loaded machine); the wall-clock limit is only a safety cap for trees on
    # which every cold trial takes seconds
    t_end = time.time() + (75 if tier == "quick" else 600)
    max_trials = 240 if tier == "quick" else 3600
    try:
        # one list of pairs per seed, dealt out to the 16 shards (so that every kind of pair gets its share of the budget)
        common = random.Random(f"{seed}:C14:cold:pairs")
        pairs = []
        for _ in range(2 if tier == "quick" else 6):
            pairs += first_use_pairs(common)
            extra = level_pairs(common)
            pairs += [extra[0], extra[3], extra[-1]]
        pairs = pairs[i::16]
        pairs.sort(key=lambda pr: pr[0]["op"] != "bic")      # pairs that run through third-party frames first (costlier trials)
        if i % 4 == 1:
            # every fourth shard starts with a pair of method-91 accounts that only the same non-first variant accepts
            p91 = variant91_pair(rng)
            if p91:
                pairs.insert(0, p91)
        for descs in pairs:
            if time.time() > t_end or rec.classes["loc-cold-schedules"] >= max_trials:
                break
            for order in (descs, descs[::-1]):
                if time.time() > t_end or rec.classes["loc-cold-schedules"] >= max_trials:
                    break
                want = [zyg.reference(d) for d in order]
                tp = order[0]["op"] == "bic"       # include the third-party frames the call runs through
                tr = zyg.trace(order[0], third_party=tp)
                if tr["outcome"] != ["ok", want[0]]:
                    raise HarnessError(f"traced cold run differs from untraced cold run: {order[0]}")
                locs = tr["locs"]
                if tier == "quick" and len(locs) > 40:
                    step = len(locs) // 40 + 1
                    locs = locs[:12] + locs[12::step]
                # first arrival at every location; for locations passed repeatedly (loops) also the 2nd and a middle arrival
                own = own_files()
                later, first = [], []
                for L in locs:
                    c = tr.get("counts", {}).get(L, 1)
                    mine = L.split(":")[0] in own
                    if mine or not tp:
                        first.append((L, 1))
                    if c >= 2:
                        later.append((L, 2))
                    if c >= 6:
                        later.append((L, c // 2))
                # third-party frames: only arrivals inside their loops (the library's own lines come first-arrival as always)
                points = (later + first) if tp else (first + later)
                for L, occ in points:
                    if rec.classes["loc-cold-schedules"] >= max_trials:
                        break
                    if time.time() > t_end:
                        rec.notes.append("cold enumeration stopped at its time budget")
                        break
                    r = zyg.concurrent(order, loc_points=[(0, L, occ, 1)], third_party=tp)
                    rec.evals += 1
                    rec.classes["loc-cold-schedules"] += 1
                    if "error" in r:
                        raise HarnessError(f"scheduler error in cold run: {r['error']}")
                    if r["switches"]:
                        rec.nt.add(hash((json.dumps(order, sort_keys=True), L, occ, "cold")))
                    got = r["outcomes"]
                    if got != [["ok", w] for w in want]:
                        rec.fail(f"interference|{order[0]['op']}|with:{order[1]['op']}|cold-start", "concurrent_equals_alone",
                                 {"calls": order, "loc_points": [[0, L, occ, 1]], "schedule": [], "origin": "locations-cold", "cold": True, "third_party": tp},
                                 [["ok", w] for w in want], got)
            rec.classes["loc-cold-pair"] += 1
        rec.sample("loc-cold", {"calls": pairs[0], "rule": "fork of pristine zygote per schedule; switch at first arrival at a location"})
    finally:
        zyg.close()
    return rec


def shard_mixed(arg):
    i, seed, tier = arg
    import random
    rng = random.Random(f"{seed}:C14:mixed:{i}")
    rec = Rec()
    start_budget(tier)
    state()
    for _ in range(25 if tier == "quick" else 300):
        if out_of_budget(rec):
            break
        k = rng.choice((2, 2, 3))
        descs = [mixed_call(rng) for _ in range(k)]
        if rng.random() < 0.4:
            # same algorithm object through the public API: two German IBANs of banks with the same method
            st = state()
            m = rng.choice([x for x in st["impl"] if len(st["by_method"].get(x, [])) >= 1])
            descs = [{"op": "iban", "text": de_iban(rng.choice(st["by_method"][m]), a), "validate_bban": True}
                     for a in directed_accounts(rng, m)[:2]]
            k = len(descs)
        total = sum(alone(d)[1] for d in descs)
        sch = sorted({(rng.randrange(1, total + 1), rng.randrange(k)) for _ in range(rng.randrange(1, 7))})
        info, eff = check_schedule(rec, descs, sch, "mixed")
        ops = "+".join(sorted(d["op"] for d in descs))
        rec.case("mixed", (json.dumps(descs), tuple(sch)) if eff else None,
                 {"calls": descs, "schedule": sch, "steps": info["steps"]} if rec.classes["mixed"] < 2 else None)
        rec.classes["mixed-" + ops] += 1
    return rec


def strategy():
    from hypothesis import strategies as st
    s = state()

    @st.composite
    def case(draw):
        r = draw(st.randoms(use_true_random=False))
        if draw(st.booleans()):
            m = draw(st.sampled_from(s["impl"]))
            descs = pair_for_method(r, m)
            if draw(st.booleans()):
                descs.append(pair_for_method(r, m)[0])
        else:
            descs = [mixed_call(r) for _ in range(draw(st.integers(2, 3)))]
        # preemption points as fractions of the run (per million): what is drawn must not depend on how many steps the calls
        # take in this process at this moment (caches warm up; a changed tree may take different paths on a second run)
        pts = draw(st.lists(st.tuples(st.integers(1, 1000000), st.integers(0, len(descs) - 1)), min_size=1, max_size=4))
        return descs, sorted(set(pts))
    return case()


def hyp_body(rec, v):
    descs, fr = v
    total = max(1, sum(alone(d)[1] for d in descs))
    sch = sorted({(1 + (x * total) // 1000001, t) for x, t in fr})
    info, eff = check_schedule(rec, descs, sch, "hyp")
    rec.case("hyp", (json.dumps(descs, sort_keys=True), tuple(sch)) if eff else None)


def run(ctx):
    import vlib.lib  # noqa: F401
    st = state()
    ctx.rule = ("Sets of 2-3 calls x thread schedules. Calls: every Bundesbank method object on directed account pairs (one with "
                "main remainder 1/0, one ordinary), IBAN(validate_bban=True) for German banks of the same method and for other "
                "countries, IBAN.generate, seeded IBAN.random, BIC.from_bank_code, iban.bic, BIC(). Schedules: preemption-point "
                "lists - enumerated 'T0 a steps, T1 b steps, T0 to the end, T1 to the end' for all a, b (stride in quick), "
                "PRNG-drawn lists of 1-7 preemptions, Hypothesis lists of 1-4 preemptions drawn together with the inputs "
                "[thorough: opcode granularity samples]. Non-trivial = at least one preemption happened while both threads were "
                "inside library code; distinct by (inputs, schedule).")
    ctx.explanation = ("Engine: deterministic scheduler (sys.settrace in worker threads, one baton, library frames only). Oracle: "
                       "each call's outcome (value or exception type+message) equals its outcome when run alone under the same "
                       "tracer; a failing schedule is re-run and must reproduce (else harness error).")
    ctx.assumptions = ["interleavings inside C code and third-party modules are atomic steps (not explored)",
                       "granularity: source line (opcode samples in thorough)"]
    ctx.pmap(shard_method, [(m, ctx.seed, ctx.tier) for m in st["impl"]])
    ctx.pmap(shard_locations, [(i, ctx.seed, ctx.tier) for i in range(16)])
    ctx.pmap(shard_two_point, [(i, ctx.seed, ctx.tier) for i in range(16)])
    ctx.pmap(shard_cold, [(i, ctx.seed, ctx.tier) for i in range(16)] + [("aged", i, ctx.seed, ctx.tier) for i in range(16)])
    ctx.pmap(shard_aged_pairs, [(kind, ctx.seed, ctx.tier) for kind in AGED_N])
    ctx.pmap(shard_national, [(cc, ctx.seed, ctx.tier) for cc in NATIONAL])
    ctx.pmap(shard_mixed, [(i, ctx.seed, ctx.tier) for i in range(16 if ctx.quick else 32)])
    ctx.hyp_parallel(strategy, hyp_body, ctx.pick(640, 12000), name="C14-hyp")
    ctx.require_classes("burst-of-lookups-while-paused", "aged-process-schedules", "two-point-schedules", "two-point-size-extreme", "failing-prelude", "burst-while-paused-schedules", "loc-warm-schedules", "loc-cold-schedules", "loc-cold-pair", "mixed", "hyp", "random-2-threads", "random-3-threads", "random-national",
                        *[f"enum-{m}" for m in st["impl"]], *[f"enum-national-{cc}" for cc in NATIONAL])
