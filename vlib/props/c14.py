"""C14 Concurrent use gives every caller the answer it would get alone (DESIGN 7/C14)."""
from __future__ import annotations

import json

from ..engines import sched
from ..oracles import de as ode
from ..oracles import reg as oreg
from ..oracles.core import canonical_digits, repo_root
from ..runner import HarnessError, Rec
from ._shared import gen, oracle

# ------------------------------------------------------------------------------------------------ call descriptors
# A call is a JSON-able descriptor so that inputs and schedule shrink / replay together.

def make_call(d):
    from random import Random
    from schwifty import BIC, IBAN
    k = d["op"]
    if k == "de":
        from schwifty.checksum import algorithms
        algo = algorithms["DE:" + d["method"]]
        return lambda: algo.validate([d["account"]], "")
    if k == "iban":
        return lambda: str(IBAN(d["text"], validate_bban=d.get("validate_bban", False)))
    if k == "generate":
        return lambda: str(IBAN.generate(d["cc"], bank_code=d["bank_code"], account_code=d["account_code"],
                                         branch_code=d.get("branch_code", "")))
    if k == "random":
        return lambda: str(IBAN.random(d["cc"], random=Random(d["seed"]), use_registry=d.get("use_registry", True)))
    if k == "from_bank_code":
        return lambda: str(BIC.from_bank_code(d["cc"], d["code"]))
    if k == "iban_bic":
        return lambda: str(IBAN(d["text"]).bic)
    if k == "bic":
        return lambda: str(BIC(d["text"]))
    raise HarnessError(f"unknown op {k}")


_ALONE = {}


def alone(d, opcode=False):
    key = (json.dumps(d, sort_keys=True), opcode)
    if key not in _ALONE:
        if len(_ALONE) > 50000:
            _ALONE.clear()
        _ALONE[key] = sched.run_alone(make_call(d), repo_root(), opcode)
    return _ALONE[key]


def check_schedule(rec: Rec, descs, schedule, origin, opcode=False):
    """Run the calls under the schedule; every outcome must equal the outcome of the call run alone."""
    expected = [alone(d, opcode) for d in descs]
    for d, (out, _) in zip(descs, expected):
        if out[0] == "sched":
            raise HarnessError(f"scheduler failed on a single call {d}")
    inp = {"calls": descs, "schedule": [list(p) for p in schedule], "opcode": opcode, "origin": origin}
    try:
        got, info = sched.run_concurrently([make_call(d) for d in descs], schedule, repo_root(), opcode)
    except sched.SchedulerError as e:
        raise HarnessError(f"scheduler error: {e} on {inp}")
    bad = [i for i, (g, (w, _)) in enumerate(zip(got, expected)) if g != w]
    if bad:
        # determinism of the harness: the same schedule must reproduce the same outcomes - unless the interleaving left
        # library state behind (then the calls run alone no longer give their memoised answers either)
        got2, _ = sched.run_concurrently([make_call(d) for d in descs], schedule, repo_root(), opcode)
        if got2 != got:
            again = [sched.run_alone(make_call(d), repo_root(), opcode)[0] for d in descs]
            again2 = [sched.run_alone(make_call(d), repo_root(), opcode)[0] for d in descs]
            if again == [w for w, _ in expected] and again2 == again:
                got3, _ = sched.run_concurrently([make_call(d) for d in descs], schedule, repo_root(), opcode)
                if got3 not in (got, got2):
                    raise HarnessError(f"schedule replay is not deterministic: {inp}")
            inp["note"] = "outcomes differ between replays: the interleaving left state behind in the library"
            _ALONE.clear()
        i = bad[0]
        d = descs[i]
        who = d["op"]
        rec.fail(f"interference|{who}|with:{'+'.join(sorted({x['op'] for j, x in enumerate(descs) if j != i}))}",
                 "concurrent_equals_alone", inp, [list(w) for w, _ in expected], [list(g) for g in got])
    effective = [s for s in info["switches"] if s[3]]
    return info, len(effective)


def replay(rec, case):
    i = case["input"]
    check_schedule(rec, i["calls"], [tuple(p) for p in i["schedule"]], "replay", i.get("opcode", False))


# ------------------------------------------------------------------------------------------------ inputs

_STATE = {}


def state():
    if not _STATE:
        from schwifty.checksum import algorithms
        impl = sorted(k.split(":", 1)[1] for k in algorithms if k.startswith("DE:"))
        banks = oreg.load_banks()
        idx = oreg.index_by_code(banks)
        by_method = {}
        for (cc, code), es in sorted(idx.items()):
            if cc == "DE":
                by_method.setdefault(es[0].get("checksum_algo"), []).append(code)
        keys = sorted(k for k in idx if any(e.get("bic") for e in idx[k]))
        _STATE.update(impl=impl, by_method=by_method, keys=keys)
    return _STATE


def directed_accounts(rng, m, n=2):
    """accounts for method m: one whose main remainder is 1 (or 0/10) and one ordinary, when the method has such a notion."""
    out = []
    for want in (1, None, 0):
        for _ in range(300):
            a = f"{rng.randrange(10 ** rng.choice((10, 10, 9, 7))):010d}"
            r = ode.remainder_info(m, a)
            if want is None:
                if r not in (0, 1, 10):
                    out.append(a)
                    break
            elif r == want or r is None:
                out.append(a)
                break
    return out


def de_iban(blz, acct):
    b = blz + acct
    return "DE" + canonical_digits("DE", b) + b


def pair_for_method(rng, m):
    accts = directed_accounts(rng, m)
    a, b = rng.sample(accts, 2) if len(accts) >= 2 else (accts[0], accts[0])
    return [{"op": "de", "method": m, "account": a}, {"op": "de", "method": m, "account": b}]


def mixed_call(rng):
    st, g, o = state(), gen(), oracle()
    k = rng.choice(["iban_de", "iban_de", "iban_nat", "generate", "random", "from_bank_code", "iban_bic", "bic", "de"])
    if k == "iban_de":
        m = rng.choice([x for x in st["impl"] if st["by_method"].get(x)])
        blz = rng.choice(st["by_method"][m])
        acct = rng.choice(directed_accounts(rng, m))
        return {"op": "iban", "text": de_iban(blz, acct), "validate_bban": True}
    if k == "iban_nat":
        cc = rng.choice(["BE", "FR", "IT", "ES", "NO", "PL", "CZ", "IS", "FI", "PT", "GB", "NL"])
        b = g.natvalid_bban(cc, rng) if rng.random() < 0.7 else g.bban(cc, rng)
        return {"op": "iban", "text": g.iban_of(cc, b), "validate_bban": True}
    if k == "generate":
        cc = rng.choice(["DE", "BE", "ES", "FR", "IT", "GB", "NO", "PL"])
        from .c08 import conforming, field_info
        fi = field_info(cc)
        return {"op": "generate", "cc": cc, "bank_code": conforming(rng, fi["bank_code"][2], len(fi["bank_code"][2])),
                "account_code": conforming(rng, fi["account_code"][2], rng.randrange(1, len(fi["account_code"][2]) + 1)),
                "branch_code": conforming(rng, fi["branch_code"][2], len(fi["branch_code"][2]))}
    if k == "random":
        return {"op": "random", "cc": rng.choice(["DE", "PL", "SI", "NO", "FR", "", "GB"]), "seed": rng.randrange(2 ** 32),
                "use_registry": rng.random() < 0.6}
    if k == "from_bank_code":
        cc, code = rng.choice(st["keys"])
        return {"op": "from_bank_code", "cc": cc, "code": code if rng.random() < 0.8 else code[:-1]}
    if k == "iban_bic":
        cc, code = rng.choice([x for x in st["keys"] if x[0] in ("DE", "AT", "NL", "CH", "ES")])
        from .c12 import place_key
        t = place_key(o, g, cc, code, rng)
        return {"op": "iban_bic", "text": t or g.iban("DE", rng)}
    if k == "bic":
        return {"op": "bic", "text": rng.choice(["GENODEM1GLS", "GENODEM1", "GENODEM1GL", "XXXXQQ22", "A1B2FR2A"])}
    m = rng.choice(st["impl"])
    return {"op": "de", "method": m, "account": rng.choice(directed_accounts(rng, m))}


# ------------------------------------------------------------------------------------------------ shards

def enumerate_two_preemptions(rec, descs, stride, origin, opcode=False):
    n0 = alone(descs[0], opcode)[1]
    n1 = alone(descs[1], opcode)[1]
    cases = 0
    for a in range(0, n0 + 1, stride):
        for b in range(1, n1 + 1, stride):
            sch = [(a + 1, 1), (a + 1 + b, 0)] if a > 0 else [(1, 1), (1 + b, 0)]
            info, eff = check_schedule(rec, descs, sch, origin, opcode)
            rec.evals += 1
            cases += 1
            if eff:
                rec.nt.add(hash((json.dumps(descs, sort_keys=True), tuple(sch))))
    return cases


def shard_method(arg):
    m, seed, tier = arg
    import random
    rng = random.Random(f"{seed}:C14:{m}")
    rec = Rec()
    state()
    quick = tier == "quick"
    stateful = m in ("02", "04", "07", "14", "16", "23", "25", "11", "08", "13", "63", "68", "76", "26", "88", "99")
    pairs = 2 if quick else 6
    for p in range(pairs):
        descs = pair_for_method(rng, m)
        stride = (3 if stateful else 7) if quick else 1
        n = enumerate_two_preemptions(rec, descs, stride, "enum2")
        rec.classes[f"enum-{m}"] += n
        if p == 0:
            rec.sample(f"enum-{m}", {"calls": descs, "schedules": n, "stride": stride})
        if stride == 1:
            rec.exhaustive.append("all schedules with <= 2 preemptions (line granularity) of the method-level call pairs")
    # random multi-preemption schedules from the shard PRNG, two and three threads
    for _ in range(20 if quick else 400):
        k = rng.choice((2, 2, 3))
        descs = [pair_for_method(rng, m)[0] for _ in range(k)]
        total = sum(alone(d)[1] for d in descs)
        sch = sorted({(rng.randrange(1, total + 1), rng.randrange(k)) for _ in range(rng.randrange(1, 8))})
        info, eff = check_schedule(rec, descs, sch, "random")
        rec.case(f"random-{k}-threads", (json.dumps(descs), tuple(sch)) if eff else None)
    if not quick:
        # opcode granularity samples
        for _ in range(40):
            descs = pair_for_method(rng, m)
            total = sum(alone(d, True)[1] for d in descs)
            sch = sorted({(rng.randrange(1, total + 1), rng.randrange(2)) for _ in range(rng.randrange(1, 6))})
            info, eff = check_schedule(rec, descs, sch, "random-opcode", True)
            rec.case("random-opcode", (json.dumps(descs), tuple(sch), "op") if eff else None)
    return rec


NATIONAL = ("BE", "BA", "ES", "FR", "MC", "IT", "SM", "FI", "NO", "PL", "EE", "PT", "RS", "ME", "MK", "SI", "TL", "MR", "TN",
            "CZ", "SK", "IS")


def national_calls(rng, cc):
    """Calls routed to the national algorithm object of one country: validation (valid / invalid) and generation."""
    from .c08 import conforming, field_info
    g = gen()
    out = []
    for _ in range(2):
        b = g.natvalid_bban(cc, rng)
        if b:
            out.append({"op": "iban", "text": g.iban_of(cc, b), "validate_bban": True})
        out.append({"op": "iban", "text": g.iban(cc, rng), "validate_bban": True})
    fi = field_info(cc)
    out.append({"op": "generate", "cc": cc, "bank_code": conforming(rng, fi["bank_code"][2], len(fi["bank_code"][2])),
                "account_code": conforming(rng, fi["account_code"][2], len(fi["account_code"][2])),
                "branch_code": conforming(rng, fi["branch_code"][2], len(fi["branch_code"][2]))})
    return out


def shard_national(arg):
    cc, seed, tier = arg
    import random
    rng = random.Random(f"{seed}:C14:nat:{cc}")
    rec = Rec()
    quick = tier == "quick"
    for p in range(2 if quick else 8):
        calls = national_calls(rng, cc)
        descs = rng.sample(calls, 2)
        n = enumerate_two_preemptions(rec, descs, 9 if quick else 1, "enum2-national")
        rec.classes[f"enum-national-{cc}"] += n
        if p == 0:
            rec.sample(f"enum-national-{cc}", {"calls": descs, "schedules": n})
    for _ in range(10 if quick else 200):
        k = rng.choice((2, 3))
        descs = [rng.choice(national_calls(rng, cc)) for _ in range(k)]
        total = sum(alone(d)[1] for d in descs)
        sch = sorted({(rng.randrange(1, total + 1), rng.randrange(k)) for _ in range(rng.randrange(1, 8))})
        info, eff = check_schedule(rec, descs, sch, "random-national")
        rec.case("random-national", (json.dumps(descs), tuple(sch)) if eff else None)
    return rec


def shard_mixed(arg):
    i, seed, tier = arg
    import random
    rng = random.Random(f"{seed}:C14:mixed:{i}")
    rec = Rec()
    state()
    for _ in range(25 if tier == "quick" else 300):
        k = rng.choice((2, 2, 3))
        descs = [mixed_call(rng) for _ in range(k)]
        if rng.random() < 0.4:
            # same algorithm object through the public API: two German IBANs of banks with the same method
            st = state()
            m = rng.choice([x for x in st["impl"] if len(st["by_method"].get(x, [])) >= 1])
            descs = [{"op": "iban", "text": de_iban(rng.choice(st["by_method"][m]), a), "validate_bban": True}
                     for a in directed_accounts(rng, m)[:2]]
            k = len(descs)
        total = sum(alone(d)[1] for d in descs)
        sch = sorted({(rng.randrange(1, total + 1), rng.randrange(k)) for _ in range(rng.randrange(1, 7))})
        info, eff = check_schedule(rec, descs, sch, "mixed")
        ops = "+".join(sorted(d["op"] for d in descs))
        rec.case("mixed", (json.dumps(descs), tuple(sch)) if eff else None,
                 {"calls": descs, "schedule": sch, "steps": info["steps"]} if rec.classes["mixed"] < 2 else None)
        rec.classes["mixed-" + ops] += 1
    return rec


def strategy():
    from hypothesis import strategies as st
    s = state()

    @st.composite
    def case(draw):
        r = draw(st.randoms(use_true_random=False))
        if draw(st.booleans()):
            m = draw(st.sampled_from(s["impl"]))
            descs = pair_for_method(r, m)
            if draw(st.booleans()):
                descs.append(pair_for_method(r, m)[0])
        else:
            descs = [mixed_call(r) for _ in range(draw(st.integers(2, 3)))]
        total = sum(alone(d)[1] for d in descs)
        pts = draw(st.lists(st.tuples(st.integers(1, max(total, 1)), st.integers(0, len(descs) - 1)), min_size=1, max_size=4))
        return descs, sorted(set(pts))
    return case()


def hyp_body(rec, v):
    descs, sch = v
    info, eff = check_schedule(rec, descs, sch, "hyp")
    rec.case("hyp", (json.dumps(descs, sort_keys=True), tuple(sch)) if eff else None)


def run(ctx):
    import vlib.lib  # noqa: F401
    st = state()
    ctx.rule = ("Sets of 2-3 calls x thread schedules. Calls: every Bundesbank method object on directed account pairs (one with "
                "main remainder 1/0, one ordinary), IBAN(validate_bban=True) for German banks of the same method and for other "
                "countries, IBAN.generate, seeded IBAN.random, BIC.from_bank_code, iban.bic, BIC(). Schedules: preemption-point "
                "lists - enumerated 'T0 a steps, T1 b steps, T0 to the end, T1 to the end' for all a, b (stride in quick), "
                "PRNG-drawn lists of 1-7 preemptions, Hypothesis lists of 1-4 preemptions drawn together with the inputs "
                "[thorough: opcode granularity samples]. Non-trivial = at least one preemption happened while both threads were "
                "inside library code; distinct by (inputs, schedule).")
    ctx.explanation = ("Engine: deterministic scheduler (sys.settrace in worker threads, one baton, library frames only). Oracle: "
                       "each call's outcome (value or exception type+message) equals its outcome when run alone under the same "
                       "tracer; a failing schedule is re-run and must reproduce (else harness error).")
    ctx.assumptions = ["interleavings inside C code and third-party modules are atomic steps (not explored)",
                       "granularity: source line (opcode samples in thorough)"]
    ctx.pmap(shard_method, [(m, ctx.seed, ctx.tier) for m in st["impl"]])
    ctx.pmap(shard_national, [(cc, ctx.seed, ctx.tier) for cc in NATIONAL])
    ctx.pmap(shard_mixed, [(i, ctx.seed, ctx.tier) for i in range(16 if ctx.quick else 32)])
    ctx.hyp_explore(strategy(), hyp_body, ctx.pick(300, 6000), name="C14-hyp", shrink_s=ctx.pick(25, 200))
    ctx.require_classes("mixed", "hyp", "random-2-threads", "random-3-threads", "random-national",
                        *[f"enum-{m}" for m in st["impl"]], *[f"enum-national-{cc}" for cc in NATIONAL])
