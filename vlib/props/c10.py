"""C10 Whitespace and letter case never matter; formatting round-trips (DESIGN 7/C10)."""
from __future__ import annotations

from .. import gens
from ..oracles import reg as oreg
from ..oracles.core import norm
from ..runner import HarnessError, Rec
from ._shared import gen, oracle

WS_STATEMENT = [" ", "\t", "\n", "\xa0"]          # the ones the quantifier names; the others of W are used as well


def verdict(cls, text, **kw):
    from ..lib import SchwiftyException, frame_of
    try:
        cls(text, **kw)
        return True
    except SchwiftyException:
        return False
    except Exception as e:  # noqa: BLE001
        return f"crash:{type(e).__name__}:{frame_of(e)}"


def mega_variant(base, desc):
    """A variant with millions of padding characters, from its compact description (replay files stay small)."""
    pad = desc["char"] * desc["n"]
    k = {"before": 0, "after": len(base), "inside": len(base) // 2}[desc["where"]]
    return base[:k] + pad + base[k:]


def check_pair(rec: Rec, kind: str, base: str, variant, origin: str):
    from ..lib import BIC, IBAN
    desc = None
    if isinstance(variant, dict):
        desc, variant = variant, mega_variant(base, variant)
    elif norm(base) != norm(variant):
        raise HarnessError(f"variant generator changed more than whitespace/ASCII case: {base!r} -> {variant!r}")
    inp = {"kind": kind, "base": base, "variant": desc if desc is not None else variant, "origin": origin}
    cls = IBAN if kind == "iban" else BIC
    modes = [{}] if kind == "iban" else [{}, {"enforce_swift_compliance": True}]
    if kind == "iban":
        modes.append({"validate_bban": True})
    for kw in modes:
        vb, vv = verdict(cls, base, **kw), verdict(cls, variant, **kw)
        if isinstance(vb, str) or isinstance(vv, str):
            rec.fail(f"crash|{vb if isinstance(vb, str) else vv}", "total", {**inp, "mode": kw}, "verdict", [vb, vv])
            return None
        if vb != vv:
            rec.fail(f"verdict_differs|{kind}|{'+'.join(kw) or 'plain'}", "variant_same_verdict", {**inp, "mode": kw}, vb, vv)
            return None
    try:
        ob, ov = cls(base, allow_invalid=True), cls(variant, allow_invalid=True)
    except Exception as e:  # noqa: BLE001
        rec.fail(f"crash|unvalidated|{type(e).__name__}", "total", inp, "object", f"{type(e).__name__}: {e}")
        return None
    want = norm(base)
    if not (ob == ov and ov == ob) or hash(ob) != hash(ov):
        rec.fail(f"objects_differ|{kind}", "variant_equal_object", inp, str(ob), str(ov))
    for o_ in (ob, ov):
        c = o_.compact
        if c != want or str(o_) != want or any(ch.isspace() for ch in c) or c.upper() != c:
            rec.fail(f"compact_not_normalised|{kind}", "compact_normal_form", inp, want, c)
            return None
    valid = verdict(cls, base) is True
    # formatted form
    if kind == "iban":
        f = ov.formatted
        if f != " ".join(want[i:i + 4] for i in range(0, len(want), 4)):
            rec.fail("iban_formatted", "formatted_groups_of_four", inp, " ".join(want[i:i + 4] for i in range(0, len(want), 4)), f)
            return valid
        forms = [("compact", ov.compact), ("formatted", f)]
    else:
        forms = [("compact", ov.compact)]
        if len(want) in (8, 11):
            f = ov.formatted
            parts = [want[:4], want[4:6], want[6:8]] + ([want[8:]] if len(want) == 11 else [])
            if f != " ".join(parts):
                rec.fail("bic_formatted", "formatted_parts", inp, " ".join(parts), f)
                return valid
            forms.append(("formatted", f))
    for name, form in forms:
        try:
            again = cls(form) if valid else cls(form, allow_invalid=True)
        except Exception as e:  # noqa: BLE001
            rec.fail(f"reparse_raises|{kind}|{name}", "reparse_equal", {**inp, "form": form}, "equal object",
                     f"{type(e).__name__}: {e}")
            continue
        if again != ov or str(again) != want:
            rec.fail(f"reparse_differs|{kind}|{name}", "reparse_equal", {**inp, "form": form}, want, str(again))
    return valid


def replay(rec, case):
    if case["input"].get("origin") == "configurations":
        from ._configs import replay as _r
        return _r(rec, case)
    from ..lib import IBAN, outcome
    i = case["input"]
    if i["kind"] == "generate":
        b, v = i["base"], i["variant"]
        base = outcome(lambda: str(IBAN.generate(i["cc"], bank_code=b[0], account_code=b[1], branch_code=b[2])))
        got = outcome(lambda: str(IBAN.generate(i["cc"], bank_code=v[0], account_code=v[1], branch_code=v[2])))
        if not ((got[0] == base[0]) and (got[0] != "ok" or got[1] == base[1])):
            rec.fail("generate_variant_differs|replay", "generate_variants_alike", i, base[:2], got[:2])
        return
    check_pair(rec, i["kind"], i["base"], i["variant"], i.get("origin", "replay"))


def make_variant(rng, base, ws_pool, n_ws=None, flip_p=0.4):
    out = []
    for ch in base:
        if ch.isascii() and ch.isalpha() and rng.random() < flip_p:
            ch = ch.swapcase()
        out.append(ch)
    k = rng.randrange(0, 6) if n_ws is None else n_ws
    for _ in range(k):
        i = rng.randrange(len(out) + 1)
        out.insert(i, rng.choice(ws_pool) * rng.choice((1, 1, 2)))
    return "".join(out)


def differs_nontrivially(base, variant):
    if any(c.isspace() and c != " " for c in variant) and variant != base:
        return True
    b = "".join(c for c in base if not c.isspace())
    v = "".join(c for c in variant if not c.isspace())
    return b != v


def check_generate_variants(rec: Rec, cc, rng):
    """Whitespace and case of the *components* handed to IBAN.generate never matter either (whitespace-only == empty)."""
    from ..lib import IBAN, outcome
    from .c08 import conforming, field_info
    from ._shared import oracle
    o = oracle()
    if not o.positions(cc):
        return
    fi = field_info(cc)
    comps = {k: conforming(rng, fi[k][2], len(fi[k][2])) for k in fi}
    combined = comps["bank_code"] + comps["branch_code"]
    cases = [(comps["bank_code"], comps["account_code"], comps["branch_code"]), (combined, comps["account_code"], "")]
    for bank, acct, branch in cases:
        base = outcome(lambda: str(IBAN.generate(cc, bank_code=bank, account_code=acct, branch_code=branch)))
        for w in (" ", "\t", "\xa0", "\n "):
            variants = [(w + bank + w, acct, branch), (bank.lower(), w.join(acct) if acct else acct, branch),
                        (bank, acct, (branch + w) if branch else w), (bank, w + acct, (w + branch.lower()) if branch else w + w)]
            for vb, va, vr in variants:
                got = outcome(lambda: str(IBAN.generate(cc, bank_code=vb, account_code=va, branch_code=vr)))
                same = (got[0] == base[0]) and (got[0] != "ok" or got[1] == base[1])
                if not same:
                    rec.fail(f"generate_variant_differs|{'ws-only-branch' if not branch else 'components'}", "generate_variants_alike",
                             {"kind": "generate", "cc": cc, "base": [bank, acct, branch], "variant": [vb, va, vr]}, base[:2], got[:2])
                rec.case("generate-variant", (cc, vb, va, vr))


def shard_country(arg):
    cc, seed, tier = arg
    import random
    rng = random.Random(f"{seed}:C10:{cc}")
    rec = Rec()
    g = gen()
    quick = tier == "quick"
    for bi in range(2 if quick else 12):
        base = g.iban(cc, rng, "random" if bi % 2 == 0 else "letters")
        # enumerated: every whitespace character of W at every position (including leading and trailing)
        pool = gens.WHITESPACE if (bi == 0) else WS_STATEMENT
        for w in pool:
            for i in range(len(base) + 1):
                v = base[:i] + w + base[i:]
                check_pair(rec, "iban", base, v, "ws-insert")
                rec.case("iban-ws-insert", (base, v) if w != " " else None)
        rec.exhaustive.append("every whitespace character of W inserted at every position of a valid IBAN per country")
        if bi == 0 and cc == "DE":
            # padding by the million (a size ladder up to 2^26 + 1 characters; thorough: 2^28 + 1): whitespace does not count,
            # however much of it there is
            ladder = [{"n": 2 ** 20 + 1, "char": "\t", "where": "before"}, {"n": 2 ** 26 + 1, "char": " ", "where": "inside"}]
            if not quick:
                ladder += [{"n": 2 ** 24 + 1, "char": "\n", "where": "after"}, {"n": 2 ** 28 + 1, "char": " ", "where": "after"}]
            for d_ in ladder:
                check_pair(rec, "iban", base, d_, f"ws-mega:{d_['n']}")
                rec.case("iban-ws-mega", (base, d_["n"]))
            check_pair(rec, "bic", "GENODEM1GLS", {"n": 2 ** 26 + 1, "char": " ", "where": "inside"}, f"ws-mega:{2 ** 26 + 1}")
            rec.case("bic-ws-mega", ("GENODEM1GLS", 2 ** 26 + 1))
        if bi == 0:
            # the same around the other spellings a user copies from paper or a statement: printed groups of four (upper and
            # lower case) and the lower-case compact form, each with every whitespace character before, after, on both sides,
            # doubled at the end and in the middle
            printed = " ".join(base[i:i + 4] for i in range(0, len(base), 4))
            for form in (printed, printed.lower(), base.lower()):
                k = len(form) // 2
                for w in gens.WHITESPACE:
                    for v in (w + form, form + w, w + form + w, form + w + w, form[:k] + w + form[k:]):
                        check_pair(rec, "iban", base, v, "ws-affix")
                        rec.case("iban-ws-affix", (base, v))
            rec.exhaustive.append("every whitespace character of W before / after / around / doubled after / inside the printed, "
                                  "lower-case printed and lower-case compact spelling of a valid IBAN per country")
        if bi < 2:
            from .. import dims
            for label, v in dims.whitespace_extremes(base, huge=(cc in ("DE", "GB", "LC", "RU") if "cc" in dir() else False)):
                check_pair(rec, "iban", base, v, f"ws-extreme:{label}")
                rec.case("iban-ws-extreme", (base, label))
            # texts carrying a domain token (label) are judged like any other text: all whitespace/case variants alike
            for tok in dims.token_dictionary()[:10 if quick else 60]:
                b2 = tok + base
                for v in (tok + " " + base, tok.lower() + "\t" + base.lower(), " " + tok + "  " + base, tok + "\xa0" + base,
                          " ".join(tok) + base):
                    if norm(v) == norm(b2):
                        check_pair(rec, "iban", b2, v, "token-base")
                        rec.case("iban-token-base", (b2, v), {"base": b2, "variant": v} if tok == "IBAN" and bi == 0 else None)
            check_generate_variants(rec, cc, rng)
        for _ in range(6 if quick else 60):
            v = make_variant(rng, base, gens.WHITESPACE)
            ok = check_pair(rec, "iban", base, v, "variant-of-valid")
            rec.case("iban-valid-variant", (base, v) if differs_nontrivially(base, v) else None,
                     {"base": base, "variant": v} if bi == 0 else None)
        # invalid bases: single mutation, then variants
        for _ in range(6 if quick else 60):
            i = rng.randrange(len(base))
            bad = base[:i] + rng.choice("0123456789ABCXYZ-.") + base[i + 1:]
            if rng.random() < 0.3:
                bad = bad[:-1]
            v = make_variant(rng, bad, gens.WHITESPACE)
            check_pair(rec, "iban", bad, v, "variant-of-mutant")
            rec.case("iban-invalid-variant", (bad, v) if differs_nontrivially(bad, v) else None,
                     {"base": bad, "variant": v} if bi == 0 else None)
    return rec


def shard_bic(arg):
    bics, seed, tier = arg
    import random
    rng = random.Random(f"{seed}:C10:bic:{bics[0]}")
    rec = Rec()
    for n, base in enumerate(bics):
        if n % 10 == 0:
            for w in gens.WHITESPACE:
                for i in range(len(base) + 1):
                    v = base[:i] + w + base[i:]
                    check_pair(rec, "bic", base, v, "ws-insert")
                    rec.case("bic-ws-insert", (base, v) if w != " " else None)
        if n % 10 == 0:
            printed = " ".join(p for p in (base[:4], base[4:6], base[6:8], base[8:]) if p)
            for form in (printed, printed.lower(), base.lower()):
                for w in gens.WHITESPACE:
                    for v in (w + form, form + w, w + form + w, form + w + w):
                        check_pair(rec, "bic", base, v, "ws-affix")
                        rec.case("bic-ws-affix", (base, v))
        if n % 10 == 0:
            from .. import dims
            for label, v in dims.whitespace_extremes(base):
                check_pair(rec, "bic", base, v, f"ws-extreme:{label}")
                rec.case("bic-ws-extreme", (base, label))
            for tok in ("BIC", "SWIFT", "BIC:", "SWIFT:"):
                b2 = tok + base
                for v in (tok + " " + base, tok.lower() + " " + base.lower()):
                    check_pair(rec, "bic", b2, v, "token-base")
                    rec.case("bic-token-base", (b2, v))
        for _ in range(3):
            v = make_variant(rng, base, gens.WHITESPACE)
            check_pair(rec, "bic", base, v, "variant-of-registry-bic")
            rec.case("bic-valid-variant", (base, v) if differs_nontrivially(base, v) else None,
                     {"base": base, "variant": v} if n == 0 else None)
        i = rng.randrange(len(base))
        bad = base[:i] + rng.choice("0123456789AZ-") + base[i + 1:]
        if rng.random() < 0.4:
            bad = bad + rng.choice("XA1")
        v = make_variant(rng, bad, gens.WHITESPACE)
        check_pair(rec, "bic", bad, v, "variant-of-mutant")
        rec.case("bic-invalid-variant", (bad, v) if differs_nontrivially(bad, v) else None)
    return rec


def strategy():
    from hypothesis import strategies as st
    from .c01 import text_strategy as iban_texts
    from .c04 import text_strategy as bic_texts

    @st.composite
    def pair(draw):
        if draw(st.booleans()):
            kind, (_, base) = "iban", draw(iban_texts())
        else:
            kind, (_, base, _s) = "bic", draw(bic_texts([]))
        r = draw(st.randoms(use_true_random=False))
        v = make_variant(r, base, gens.WHITESPACE)
        return kind, base, v
    return pair()


def hyp_body(rec, v):
    kind, base, variant = v
    check_pair(rec, kind, base, variant, "hyp")
    rec.case(f"hyp-{kind}", (base, variant) if differs_nontrivially(base, variant) else None)


def run(ctx):
    import vlib.lib  # noqa: F401
    o = oracle()
    ctx.rule = ("Base texts: reference-built valid IBANs of every country, single mutants of them, every BIC of the bundled "
                "registry and mutants, Hypothesis near-valid and arbitrary Unicode texts. Variants: every whitespace character "
                "of W inserted at every position (enumerated), and random variants with 0..5 whitespace insertions (single or "
                "doubled, anywhere) and random flips of ASCII letter case. Non-trivial = the variant differs from the base in a "
                "non-space whitespace character or a case flip; distinct by (base, variant).")
    ctx.explanation = ("Metamorphic oracle: verdict(variant) == verdict(base) for IBAN (plain, national) and BIC (iso, strict); "
                       "unvalidated objects are equal with equal hashes; compact == norm(base), contains no whitespace, is "
                       "upper-cased; IBAN.formatted == groups of four; BIC.formatted == parts joined by single spaces (lengths "
                       "8/11); parsing compact/formatted again yields an equal object.")
    ctx.assumptions = ["'no lower-case letters' read as compact.upper() == compact",
                       "BIC formatted round trip only for lengths 8 and 11"]
    ctx.pmap(shard_country, [(cc, ctx.seed, ctx.tier) for cc in o.countries()])
    bics = sorted({e["bic"] for e in oreg.load_banks() if e.get("bic")})
    step = ctx.pick(9, 1)
    sel = bics[::step]
    chunk = max(1, len(sel) // 32)
    ctx.pmap(shard_bic, [(sel[i:i + chunk], ctx.seed, ctx.tier) for i in range(0, len(sel), chunk)])
    ctx.hyp_parallel(strategy, hyp_body, ctx.pick(8000, 300000), name="C10-hyp")
    from ._configs import stage as _config_stage
    _config_stage(ctx, ['parse', 'bic'])
    ctx.require_classes("iban-ws-mega", "bic-ws-mega", "iban-ws-affix", "bic-ws-affix", "iban-ws-extreme", "iban-token-base", "generate-variant", "bic-ws-extreme", "bic-token-base",
                        "iban-ws-insert", "iban-valid-variant", "iban-invalid-variant", "bic-ws-insert", "bic-valid-variant",
                        "bic-invalid-variant", "hyp-iban", "hyp-bic")
