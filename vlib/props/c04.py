"""C04 BIC acceptance is exactly the ISO 9362 structure with a known country code (DESIGN 7/C04)."""
from __future__ import annotations

from .. import gens
from ..oracles import bic as obic
from ..oracles import reg as oreg
from ..oracles.core import ALNUM, ASCII_UPPER, norm
from ..runner import HarnessError, Rec
from ._shared import char_cat


def check_bic(rec: Rec, text: str, strict: bool, origin: str):
    from ..lib import BIC, SchwiftyException, frame_of
    s = norm(text)
    want = obic.accept_norm(s, strict)
    inp = {"text": text, "strict": strict, "origin": origin}
    obj = None
    try:
        obj = BIC(text, enforce_swift_compliance=strict)
        got = True
    except SchwiftyException:
        got = False
    except Exception as e:  # noqa: BLE001
        rec.fail(f"crash|{type(e).__name__}|{frame_of(e)}", "bic_total", inp, "verdict", f"{type(e).__name__}: {e}")
        return want
    if got != want:
        cats = sorted({char_cat(c) for c in s if c not in ALNUM})
        kind = "false_accept" if got else "false_reject"
        pos = ""
        if origin.startswith("replace:"):
            i = int(origin.split(":")[1])
            pos = "prefix" if i < 4 else ("country" if i < 6 else ("location" if i < 8 else "branch"))
        rec.fail(f"{kind}|{'strict' if strict else 'iso'}|{origin.split(':')[0]}|{pos}|{','.join(cats) or 'alnum'}",
                 "bic_accept_iff", inp, want, got)
        return want
    if got:
        if str(obj) != s or obj.compact != s:
            rec.fail("compact_form", "bic_compact", inp, s, str(obj))
    # validate()/is_valid on the unvalidated object agree
    try:
        u = BIC(text, allow_invalid=True)
        try:
            v = u.validate(enforce_swift_compliance=strict) is True
        except SchwiftyException:
            v = False
        iv = u.is_valid if not strict else None
    except Exception as e:  # noqa: BLE001
        rec.fail(f"crash|{type(e).__name__}|{frame_of(e)}", "bic_total", inp, "verdict", f"{type(e).__name__}: {e}")
        return want
    if v is not want or (iv is not None and iv is not want):
        rec.fail("observation_points_disagree", "bic_points", inp, want, {"validate": v, "is_valid": iv})
    if strict and obic.accept_norm(s, False):
        # further routes to the strict question: an object that was validated in the lenient mode (by the constructor, by
        # validate(), by is_valid) is asked again in the strict mode, or handed to a constructor that asks for it; afterwards
        # the lenient questions on the same object still get the lenient answer
        routes = {}

        def after_validate():
            o2 = BIC(text, allow_invalid=True)
            o2.validate()
            return o2.validate(enforce_swift_compliance=True)

        def after_is_valid():
            o2 = BIC(text, allow_invalid=True)
            o2.is_valid  # noqa: B018
            return o2.validate(enforce_swift_compliance=True)
        for name, fn in (("revalidate", lambda: BIC(text).validate(enforce_swift_compliance=True)),
                         ("rewrap", lambda: BIC(BIC(text), enforce_swift_compliance=True)),
                         ("after_validate", after_validate), ("after_is_valid", after_is_valid)):
            try:
                fn()
                routes[name] = True
            except SchwiftyException:
                routes[name] = False
            except Exception as e:  # noqa: BLE001
                rec.fail(f"crash|{name}|{type(e).__name__}|{frame_of(e)}", "bic_total", inp, "verdict", f"{type(e).__name__}: {e}")
                return want
        bad = sorted(k for k, x in routes.items() if x is not want)
        if bad:
            rec.fail(f"route_differs|{bad[0]}", "bic_points", inp, want, routes)
        try:
            o2 = BIC(text, allow_invalid=True)
            try:
                o2.validate(enforce_swift_compliance=True)
            except SchwiftyException:
                pass
            after = [o2.is_valid, o2.validate() is True]
        except Exception as e:  # noqa: BLE001
            after = f"{type(e).__name__}: {e}"
        if after != [True, True]:
            rec.fail("lenient_answer_changed_after_strict_validation", "bic_points", inp, [True, True], after)
        rec.classes["strict-routes" + ("" if want else "-strict-rejects")] += 1
    return want


def replay(rec, case):
    if case["input"].get("origin") == "configurations":
        from ._configs import replay as _r
        return _r(rec, case)
    from .. import dims
    from ..lib import BIC
    i = case["input"]
    origin = i.get("origin", "replay")
    if "cross-class" in origin:
        dims.cross_class_touch(i["text"])
    if origin == "hostile-registry":
        hostile_registry(rec)
        return
    t = i["text"]
    if origin.startswith("argform:"):
        t = dict(dims.arg_forms(t, BIC)).get(origin.split(":", 1)[1], t)
    check_bic(rec, t, i["strict"], origin)


def bases(rng, n_extra):
    out = ["GENODEM1GLS", "GENODEM1", "1234DEWWXXX", "A1B2FR2A", "ZZZZGB99", "DEUTDEFF500", "AAAAUS00000", "0000ZW00"]
    iso = sorted(obic.ISO3166)
    for _ in range(n_extra):
        n = rng.choice((8, 11))
        s = "".join(rng.choice(ALNUM) for _ in range(4)) + rng.choice(iso) + "".join(rng.choice(ALNUM) for _ in range(n - 6))
        out.append(s)
        s = "".join(rng.choice(ASCII_UPPER) for _ in range(4)) + rng.choice(iso) + "".join(rng.choice(ALNUM) for _ in range(n - 6))
        out.append(s)
    return out


def shard_base(arg):
    base, alphabet = arg
    rec = Rec()
    for strict in (False, True):
        want = check_bic(rec, base, strict, "base")
        rec.case("base-accepted" if want else "base-rejected", (base, strict), {"text": base, "strict": strict})
        for i, ch, t in gens.single_replacements(base, alphabet):
            w = check_bic(rec, t, strict, f"replace:{i}")
            rec.evals += 1
            rec.nt.add(hash((t, strict)))
            rec.classes["replace-accepted" if w else ("replace-nonascii" if not ch.isascii() else "replace-ascii")] += 1
        for kind, t in gens.length_variants(base, filler="X", upto=14):
            check_bic(rec, t, strict, f"length:{kind}")
            rec.case("length-" + kind, (t, strict))
        for i, ch, t in gens.single_insertions(base, alphabet, positions=sorted({0, 4, 6, 8, len(base)})):
            w = check_bic(rec, t, strict, "insertion")
            rec.evals += 1
            rec.nt.add(hash((t, strict)))
            rec.classes["insertion-accepted" if w else "insertion-rejected"] += 1
        for ins in ("-", " ", "\n", "a", "0", "\u0663", "\u00df"):
            for i in range(len(base) + 1):
                t = base[:i] + ins + base[i:]
                check_bic(rec, t, strict, "insert")
                rec.case("insert", (t, strict))
        t = base.lower()
        check_bic(rec, t, strict, "lower")
        rec.case("lower", (t, strict), {"text": t, "strict": strict})
        # extreme whitespace, domain tokens, argument forms (vlib/dims.py)
        from .. import dims
        from ..lib import BIC as _BIC
        for label, t in dims.whitespace_extremes(base, huge=(base == "GENODEM1GLS")):
            check_bic(rec, t, strict, f"ws-extreme:{label}")
            rec.case("ws-extreme", (base, label, strict), {"label": label, "len": len(t), "base": base} if label == "trail-300" else None)
            bad = t.replace(base[5], "-", 1)
            check_bic(rec, bad, strict, f"ws-extreme-bad:{label}")
            rec.case("ws-extreme-invalid", (base, label, strict, "bad"))
        for label, t in dims.token_variants(base, dims.token_dictionary()[:24]):
            check_bic(rec, t, strict, f"token:{label}")
            rec.case(label, (t, strict))
        for t in (base, base.lower(), base[:-1], " " + base, base[:4] + "QQ" + base[6:]):
            for form, v in dims.arg_forms(t, _BIC):
                check_bic(rec, v, strict, f"argform:{form}")
                rec.case(f"argform-{form}", (t, form, strict), {"text": t, "form": form})
    rec.exhaustive.append("every position x every alphabet character, every length 0..14, per base and mode")
    return rec


def shard_countries(arg):
    first, = arg
    rec = Rec()
    from .. import dims
    extra = ["\u00df", "\u0131", "\u017f", "\u212a", "\uff21", "\u0410", "\u0395", "\u0663", "1", "0", "-", " "]
    pool = list(ASCII_UPPER) + [c.lower() for c in ASCII_UPPER] + extra
    for second in pool:
        cc = first + second
        for tmpl in ("GENO%sM1GLS", "A1B2%s2A"):
            t = tmpl % cc
            if tmpl.startswith("GENO"):
                dims.cross_class_touch(t)        # the same text seen as IBAN / BBAN first
            for strict in (False, True):
                w = check_bic(rec, t, strict, "country" if not tmpl.startswith("GENO") else "country-after-cross-class-touch")
                rec.case("country-accepted" if w else "country-rejected", (t, strict),
                         {"text": t, "strict": strict} if second in "Zz\u0131" else None)
    rec.exhaustive.append("all 676 two-letter country codes (upper and lower case) in 8- and 11-character BICs, both modes")
    return rec


HOSTILE_BICS = ["1234DEWWXXX", "ABCDQQ22", "ABCDQQ22XXX", "GENODEM1G", "GENO-EM1GLS", "genodem1gls", "GENODEM1GLSX", "A1B2FR2A",
                "ABCDEF", "", "ZZZZXK22", "DEUTDEFF 500"]


def hostile_registry(rec: Rec):
    """BIC acceptance is a function of the text alone: a copy of the package whose bank registry lists malformed and
    digit-prefixed BICs must judge those very texts like the reference does (a registry 'fast path' would not)."""
    from ..engines.pkgcopy import PackageCopy
    from ..oracles.core import repo_root
    entries = [{"country_code": "DE", "bank_code": f"{10000000 + i}", "bic": b, "name": "N", "short_name": "S", "primary": True}
               for i, b in enumerate(HOSTILE_BICS)]
    with PackageCopy(repo_root(), bank_files={"hostile.json": entries}) as pc:
        ops = []
        for b in HOSTILE_BICS:
            for strict in (False, True):
                ops.append({"op": "bic_verdict", "text": b, "strict": strict})
        res = pc.query(ops)
        if isinstance(res, dict):
            rec.notes.append("hostile-registry copy does not import (C12/C17 territory): " + res["import_error"][-200:])
            return
        i = 0
        for b in HOSTILE_BICS:
            for strict in (False, True):
                r = res[i]
                i += 1
                want = obic.accept(b, strict)
                got = "ok" in r
                if "crash" in r:
                    rec.fail(f"crash|hostile-registry|{r['crash']}", "bic_total", {"text": b, "strict": strict, "origin": "hostile-registry"},
                             want, r)
                elif got != want:
                    rec.fail(f"{'false_accept' if got else 'false_reject'}|hostile-registry", "bic_accept_independent_of_registry",
                             {"text": b, "strict": strict, "origin": "hostile-registry", "registry_bics": HOSTILE_BICS}, want, got)
                rec.case("hostile-registry", (b, strict, "hostile"), {"text": b, "strict": strict, "registry lists it": True})


def text_strategy(registry_bics):
    from hypothesis import strategies as st
    alpha = gens.alphabet_quick()
    iso = sorted(obic.ISO3166)

    @st.composite
    def near(draw):
        if registry_bics and draw(st.booleans()):
            t = draw(st.sampled_from(registry_bics))
        else:
            n = draw(st.sampled_from((8, 11)))
            t = (draw(st.text(alphabet=st.sampled_from(ALNUM), min_size=4, max_size=4)) + draw(st.sampled_from(iso))
                 + draw(st.text(alphabet=st.sampled_from(ALNUM), min_size=n - 6, max_size=n - 6)))
        for _ in range(draw(st.integers(0, 3))):
            if not t:
                break
            op = draw(st.sampled_from(["rep", "del", "ins", "case", "ws"]))
            i = draw(st.integers(0, len(t) - 1))
            if op == "rep":
                t = t[:i] + draw(st.sampled_from(alpha)) + t[i + 1:]
            elif op == "del":
                t = t[:i] + t[i + 1:]
            elif op == "ins":
                t = t[:i] + draw(st.sampled_from(alpha)) + t[i:]
            elif op == "case":
                t = t[:i] + t[i].swapcase() + t[i + 1:]
            else:
                t = t[:i] + draw(st.sampled_from(gens.WHITESPACE)) + t[i:]
        return ("near", t, draw(st.booleans()))

    anytext = st.tuples(st.just("text"), st.text(alphabet=st.characters(codec=None, exclude_categories=()), max_size=14),
                        st.booleans())
    alnum = st.tuples(st.just("alnum"), st.text(alphabet=st.sampled_from(ALNUM + "abz \n"), min_size=6, max_size=12),
                      st.booleans())
    return st.one_of(near(), near(), anytext, alnum)


def text_strategy_with_registry():
    return text_strategy(sorted({e["bic"] for e in oreg.load_banks() if e.get("bic")}))


def hyp_body(rec, v):
    kind, t, strict = v
    w = check_bic(rec, t, strict, f"hyp:{kind}")
    nt = w or kind == "near" or not t.isascii()
    rec.case(f"hyp-{kind}" + ("-accepted" if w else ""), (t, strict) if nt else None,
             {"text": t, "strict": strict} if kind != "text" else None)


def run(ctx):
    import vlib.lib  # noqa: F401
    ctx.rule = ("Both compliance modes x { 8- and 11-character bases (letters-only prefix, digit-bearing prefix, random) x "
                "every position x every character of alphabet W; every length 0..14 (truncate/extend/delete/duplicate); "
                "insertions of punctuation/whitespace/non-ASCII at every position; all 676 [A-Z]^2 country codes and their "
                "lower-case and non-ASCII variants; every BIC of the bundled registry; Hypothesis near-valid edit chains and "
                "arbitrary Unicode text }. Non-trivial = accepted by the reference, or one edit from an accepted text, or "
                "containing a non-ASCII character; distinct by (text, mode).")
    ctx.explanation = ("Oracle: own ISO 9362 matcher with an embedded list of the 249 ISO 3166-1 alpha-2 codes. Relation: "
                       "BIC(t, enforce_swift_compliance=m) succeeds <=> reference accepts; validate(m)/is_valid on the "
                       "unvalidated object agree; compact form == norm(t).")
    ctx.assumptions = ["ISO 3166-1 list embedded in vlib/oracles/bic.py (249 codes, equal to pycountry 26.2.16 when written)"]
    rng = ctx.rng("bases")
    alphabet = gens.alphabet_quick() if ctx.quick else gens.alphabet_thorough(ctx.rng("alphabet"), 2000)
    bs = bases(rng, ctx.pick(4, 60))
    ctx.pmap(shard_base, [(b, alphabet) for b in bs])
    ctx.pmap(shard_countries, [(c,) for c in ASCII_UPPER + ASCII_UPPER.lower()])
    # every registry BIC is a generated "valid" input too (read by the reference loader, not through schwifty)
    bics = sorted({e["bic"] for e in oreg.load_banks() if e.get("bic")})
    step = ctx.pick(7, 1)
    rec = ctx.rec
    for b in bics[::step]:
        for strict in (False, True):
            w = check_bic(rec, b, strict, "registry")
            rec.case("registry-accepted" if w else "registry-rejected", (b, strict))
    hostile_registry(rec)
    ctx.hyp_parallel(text_strategy_with_registry, hyp_body, ctx.pick(8000, 400000), name="C04-text")
    if not ctx.quick:
        from ..engines import fuzz
        fuzz.run_campaign(ctx.rec, "bic-c04", 150000, ctx.seed, ctx.prop)   # secondary engine: coverage-guided, oracle inside
    from ._configs import stage as _config_stage
    _config_stage(ctx, ['bic'])
    ctx.require_classes("strict-routes", "strict-routes-strict-rejects", "insertion-accepted", "insertion-rejected", "ws-extreme", "token-prefix", "argform-userstr", "argform-own-object", "hostile-registry",
                        "base-accepted", "replace-ascii", "replace-nonascii", "country-accepted", "country-rejected",
                        "length-trunc", "hyp-near", "hyp-text", "registry-accepted")
