"""Thin access layer to the library under test (imported from the working tree via PYTHONPATH)."""
from __future__ import annotations

import os
import traceback

import schwifty
from schwifty import BBAN, BIC, IBAN, exceptions as exc  # noqa: F401
from schwifty.exceptions import SchwiftyException

_repo = os.path.abspath(os.environ.get("VERIF_REPO", "/repo"))
if os.environ.get("VERIF_ALLOW_FOREIGN") != "1":
    assert os.path.abspath(schwifty.__file__).startswith(_repo + os.sep), (schwifty.__file__, _repo)


def frame_of(e: BaseException) -> str:
    """innermost schwifty frame of an exception: 'file.py:function'."""
    tb = traceback.extract_tb(e.__traceback__)
    for fr in reversed(tb):
        if os.sep + "schwifty" + os.sep in fr.filename:
            return f"{os.path.basename(fr.filename)}:{fr.name}"
    return f"{os.path.basename(tb[-1].filename)}:{tb[-1].name}" if tb else "?"


def outcome(fn, *a, **kw):
    """('ok', value) | ('err', ExceptionClassName, message) | ('crash', ExceptionClassName, frame)."""
    try:
        return ("ok", fn(*a, **kw))
    except SchwiftyException as e:
        return ("err", type(e).__name__, str(e))
    except Exception as e:  # noqa: BLE001 - anything else escaping is exactly what is being looked for
        return ("crash", type(e).__name__, frame_of(e))


def iban_verdict(text, **kw):
    """True accepted / False rejected by a library error / ('crash', type, frame)."""
    try:
        IBAN(text, **kw)
        return True
    except SchwiftyException:
        return False
    except Exception as e:  # noqa: BLE001
        return ("crash", type(e).__name__, frame_of(e))


def bic_verdict(text, **kw):
    try:
        BIC(text, **kw)
        return True
    except SchwiftyException:
        return False
    except Exception as e:  # noqa: BLE001
        return ("crash", type(e).__name__, frame_of(e))
