"""Generators (DESIGN section 5). Constructions, not filters. Every random choice comes from a Random passed in
(seeded from VERIF_SEED by the caller) or from Hypothesis strategies."""
from __future__ import annotations

import sys
import unicodedata
from functools import lru_cache

from .oracles import nat as onat
from .oracles.core import ALNUM, ASCII_DIGITS, ASCII_UPPER, IbanOracle, canonical_digits, matches_structure

WHITESPACE = ["\t", "\n", "\r", "\x0b", "\x0c", "\x1c", "\x1d", "\x1e", "\x1f", " ", "\x85", "\xa0", "\u1680",
              *[chr(c) for c in range(0x2000, 0x200B)], "\u2028", "\u2029", "\u202f", "\u205f", "\u3000"]
assert all(c.isspace() for c in WHITESPACE) and len(set(WHITESPACE)) == len(WHITESPACE)
LOOKALIKE_NONSPACE = ["\u200b", "\ufeff", "\u00ad", "\u2060", "\u180e"]
assert not any(c.isspace() for c in LOOKALIKE_NONSPACE)


@lru_cache(maxsize=None)
def nd_codepoints():
    """All non-ASCII code points of category Nd (decimal digits)."""
    return tuple(chr(c) for c in range(0x80, sys.maxunicode + 1) if unicodedata.category(chr(c)) == "Nd")


@lru_cache(maxsize=None)
def upper_into_ascii():
    """Non-ASCII code points whose upper() contains an ASCII alphanumeric (\u00df, \u0131, \u017f, \ufb01, Kelvin-sign lower ...)."""
    out = []
    for c in range(0x80, 0x20000):
        ch = chr(c)
        up = ch.upper()
        if up != ch and any(x in ALNUM for x in up):
            out.append(ch)
    return tuple(out)


@lru_cache(maxsize=None)
def case_changing():
    """All non-ASCII code points with c.upper() != c."""
    return tuple(chr(c) for c in range(0x80, 0x20000) if chr(c).upper() != chr(c))


CONFUSABLES = list("\u0410\u0412\u0415\u041a\u041c\u041d\u041e\u0420\u0421\u0422\u0425\u0430\u0435\u043e\u0440\u0441\u0443\u0445"            # Cyrillic
                   "\u0391\u0392\u0395\u0396\u0397\u0399\u039a\u039c\u039d\u039f\u03a1\u03a4\u03a5\u03a7"                 # Greek
                   "\uff21\uff3a\uff41\uff5a\uff10\uff19"                      # fullwidth
                   "\u212a\u212b\u2126"              # Kelvin, Angstrom, Ohm signs
                   "\u00b2\u00b3\u00b9\u2070\u2074\u2080\u2089\u2460\u2468\u2160\u2164\u2169\u2170\u00bd"               # superscripts, circled, roman numerals, fraction
                   "\u00c0\u00c9\u00d1\u00d6\u00dc\u00df\u00e7\u0131\u0130\u017f\ufb01\ufb00"
                   "\U0001d7ce\U0001d7d7\U0001d7d8\U0001d7e1\U0001d7ec\U0001d7f5")                       # mathematical digits (Nd)
ODDITIES = ["\x00", "\x7f", "\ud800", "\U0010ffff", "\u0301", "\u200d", "\ufffd"]


@lru_cache(maxsize=None)
def invisible_codepoints():
    """Format (Cf) characters - zero-width and directional marks, soft hyphen, BOM, tags - and C1 controls: invisible in most
    renderings, not whitespace for str.isspace()."""
    out = [chr(c) for c in range(0x80, 0xA0) if not chr(c).isspace()]
    out += [chr(c) for c in range(0xA0, 0x20000) if unicodedata.category(chr(c)) == "Cf"]
    return tuple(out)


@lru_cache(maxsize=None)
def alphabet_quick():
    nd = nd_codepoints()
    # 40 non-ASCII decimal digits from 20 scripts: digits 0 and 9 of every third block or so
    blocks = [nd[i:i + 10] for i in range(0, len(nd), 10)]
    step = max(1, len(blocks) // 20)
    digits = []
    for b in blocks[::step][:20]:
        digits += [b[0], b[-1]]
    chars = [chr(c) for c in range(0x20, 0x7F)] + WHITESPACE + LOOKALIKE_NONSPACE + digits
    chars += list(upper_into_ascii()) + CONFUSABLES + ODDITIES + list(invisible_codepoints())
    seen, out = set(), []
    for c in chars:
        if c not in seen:
            seen.add(c)
            out.append(c)
    return tuple(out)


def alphabet_thorough(rng, n_random=2000):
    chars = list(alphabet_quick()) + list(nd_codepoints()) + list(case_changing())
    chars += [chr(rng.randrange(0x80, sys.maxunicode + 1)) for _ in range(n_random)]
    seen, out = set(), []
    for c in chars:
        if c not in seen:
            seen.add(c)
            out.append(c)
    return tuple(out)


_CLASS_CHARS = {"n": ASCII_DIGITS, "a": ASCII_UPPER, "c": ALNUM, "e": " "}


class Gen:
    """Constructive generators over an IbanOracle table."""

    def __init__(self, oracle: IbanOracle | None = None):
        self.o = oracle or IbanOracle()

    def classes(self, cc):
        cl = self.o.fixed[cc]
        if cl is None:
            # variable-width structure: choose maximum widths (none bundled today)
            cl = "".join(c * hi for c, lo, hi in self.o.toks[cc])
        return cl

    def bban(self, cc, rng, variant="random"):
        cl = self.classes(cc)
        if variant == "min":
            return "".join(_CLASS_CHARS[k][0] for k in cl)
        if variant == "max":
            return "".join(_CLASS_CHARS[k][-1] for k in cl)
        if variant == "letters":
            return "".join(rng.choice(ASCII_UPPER) if k == "c" else rng.choice(_CLASS_CHARS[k]) for k in cl)
        if variant == "digits":
            return "".join(rng.choice(ASCII_DIGITS) if k == "c" else rng.choice(_CLASS_CHARS[k]) for k in cl)
        return "".join(rng.choice(_CLASS_CHARS[k]) for k in cl)

    def iban(self, cc, rng, variant="random"):
        b = self.bban(cc, rng, variant)
        return cc + canonical_digits(cc, b) + b

    def self_similar_iban(self, cc, rng, tries=12):
        """A valid IBAN whose BBAN contains the IBAN's own first four characters (country code + check digits) again -
        repeated substrings are where replace()/find()-style shortcuts go wrong. None if the structure has no room."""
        cl = self.classes(cc)
        spots = [i for i in range(len(cl) - 3) if cl[i] in "ac" and cl[i + 1] in "ac" and cl[i + 2] in "nc" and cl[i + 3] in "nc"]
        if not spots:
            return None
        for _ in range(tries):
            b = self.bban(cc, rng)
            i = rng.choice(spots)
            for d in range(2, 99):
                dd = f"{d:02d}"
                b2 = b[:i] + cc + dd + b[i + 4:]
                if canonical_digits(cc, b2) == dd:
                    return cc + dd + b2
        return None

    def near_self_similar_iban(self, cc, rng, tries=6):
        """A valid IBAN whose BBAN contains the country code followed by two digits that differ from the IBAN's check digits in
        exactly one position: a single typing error creates (or destroys) a repetition of the IBAN's head inside the BBAN."""
        cl = self.classes(cc)
        spots = [i for i in range(len(cl) - 3) if cl[i] in "ac" and cl[i + 1] in "ac" and cl[i + 2] in "nc" and cl[i + 3] in "nc"]
        if not spots:
            return None
        for _ in range(tries):
            b = self.bban(cc, rng)
            i = rng.choice(spots)
            start = rng.randrange(100)
            for k in range(100):
                xy = f"{(start + k) % 100:02d}"
                b2 = b[:i] + cc + xy + b[i + 4:]
                dd = canonical_digits(cc, b2)
                if (xy[0] == dd[0]) != (xy[1] == dd[1]):
                    return cc + dd + b2
        return None

    def zero_run_bbans(self, cc, rng, fills=4):
        """Structured BBANs: a prefix, a run of zeros (the class minimum) and a suffix, for every prefix length and a spread of
        run lengths; prefix/suffix filled with a varied number of letters where the structure allows letters. Long zero runs
        and exact block boundaries are where chunked / shifted arithmetic goes wrong."""
        cl = self.classes(cc)
        n = len(cl)
        zero = "".join(_CLASS_CHARS[k][0] for k in cl)
        runs = sorted({1, 2, 5, 8, 9, 10, 12, 15, 16, 17, 18, 19, 20, 24, 27, n // 2, n - 1})
        for a in range(0, min(n, 8)):
            for z in runs:
                if a + z > n:
                    continue
                b_len = n - a - z
                for _ in range(fills):
                    chars = list(zero)
                    for i in list(range(a)) + list(range(a + z, n)):
                        k = cl[i]
                        if k == "c":
                            # number of letters varies uniformly over the fills (not binomially)
                            chars[i] = rng.choice(ASCII_UPPER) if rng.random() < self._p_letter else rng.choice("123456789")
                        elif k == "n":
                            chars[i] = rng.choice("123456789")
                        else:
                            chars[i] = rng.choice(_CLASS_CHARS[k])
                    self._p_letter = rng.random()
                    yield a, z, "".join(chars)

    _p_letter = 0.5

    def block_collision_bbans(self, cc, rng, per_k=3):
        """BBANs built for chunked modular arithmetic: the number that is reduced mod 97 (BBAN + country + two digits, letters
        expanded) is cut into k-digit blocks from the right, for every k in 2..18; two blocks t1 < t2 that lie inside numeric
        BBAN positions are given values c1 = w2*m and c2 = w1*m (w = 10^(k*t) mod 97), so that their weighted contributions
        w1*c1 and w2*c2 are EQUAL integers. Exact for the true arithmetic, fatal for de-duplicating / merging / reordering
        shortcuts over blocks. Only countries whose BBAN is all numeric are used (no letter expansion inside the BBAN)."""
        cl = self.classes(cc)
        if set(cl) != {"n"}:
            return
        n = len(cl)
        total = n + 6                      # two letters expand to four digits, plus two check digits
        for k in range(2, 19):
            blocks = []                    # (t, start, end) of blocks fully inside the BBAN digits
            t = 0
            while True:
                end = total - k * t
                start = end - k
                if end <= 0:
                    break
                if start >= 0 and end <= n:
                    blocks.append((t, start, end))
                t += 1
            made = 0
            pairs = [(a, b) for i, a in enumerate(blocks) for b in blocks[i + 1:]]
            rng.shuffle(pairs)
            for (t1, s1, e1), (t2, s2, e2) in pairs:
                w1, w2 = pow(10, k * t1, 97), pow(10, k * t2, 97)
                lim = (10 ** k - 1) // max(w1, w2)
                if lim < 1:
                    continue
                for m in {1, lim, rng.randrange(1, lim + 1)}:
                    c1, c2 = w2 * m, w1 * m
                    b = list(self.bban(cc, rng))
                    b[s1:e1] = f"{c1:0{k}d}"
                    b[s2:e2] = f"{c2:0{k}d}"
                    yield k, "".join(b)
                made += 1
                if made >= per_k:
                    break

    def token_bbans(self, cc, rng, tokens):
        """BBANs in which a run of letter-capable positions spells a dictionary word (IBAN, BBAN, SEPA, NONE, NULL ...):
        texts that look like labels or keywords to careless pre-processing."""
        cl = self.classes(cc)
        for tok in tokens:
            if not tok.isalpha() or not tok.isascii():
                continue
            t = tok.upper()
            for i in range(0, len(cl) - len(t) + 1):
                if all(cl[i + j] in "ac" for j in range(len(t))) and (i == 0 or cl[i - 1] not in "ac"):
                    b = self.bban(cc, rng)
                    yield t, b[:i] + t + b[i + len(t):]
                    break

    def iban_of(self, cc, bban):
        return cc + canonical_digits(cc, bban) + bban

    # national --------------------------------------------------------------------------------------
    def natvalid_bban(self, cc, rng, variant="random", tries=400):
        """A structure-conforming BBAN that O-nat accepts (True), or None if none was found."""
        pos = self.o.positions(cc)
        cl = self.classes(cc)
        if cc in onat.LISTED and onat.missing_fields(cc, pos):
            return None        # the table lacks a field the published algorithm reads (C17 reports that)
        for _ in range(tries):
            b = self.bban(cc, rng, variant)
            if cc not in onat.LISTED:
                return b
            b2 = self.natvalid_from(cc, b, rng)
            if b2:
                return b2
        return None

    def natvalid_from(self, cc, b, rng=None):
        """The given BBAN with its national check part (the check field, or the last digit of the checked fields) replaced
        so that O-nat accepts it; None if that is impossible for these other fields."""
        pos = self.o.positions(cc)
        cl = self.classes(cc)
        if cc not in onat.LISTED:
            return b
        if onat.missing_fields(cc, pos):
            return None
        if cc == "NO" and b[pos["account_code"][0]:pos["account_code"][0] + 2] == "00":
            return None
        fld = onat.check_field(pos)
        if fld is not None:
            a, e = fld
            width = e - a
            cands = ([f"{i:0{width}d}" for i in range(10 ** width)] if cl[a] == "n"
                     else list(ASCII_UPPER))
            start = rng.randrange(len(cands)) if rng is not None else 0
            for i in range(len(cands)):
                v = cands[(start + i) % len(cands)]
                b2 = b[:a] + v + b[e:]
                if onat.ref(cc, b2, pos) is True:
                    return b2
            return None
        if cc in ("CZ", "SK"):
            b2 = self._solve_last_digit(cc, b, pos, "branch_code")
            b2 = self._solve_last_digit(cc, b2, pos, "account_code") if b2 else None
            return b2 if (b2 and onat.ref(cc, b2, pos) is True) else None
        if cc == "IS":
            a, e = pos["account_holder_id"]
            for dgt in ASCII_DIGITS:
                b2 = b[:a + 8] + dgt + b[a + 9:]
                if onat.ref(cc, b2, pos) is True:
                    return b2
        return None

    def _solve_last_digit(self, cc, b, pos, field):
        a, e = pos[field]
        for dgt in ASCII_DIGITS:
            b2 = b[:e - 1] + dgt + b[e:]
            w = (6, 3, 7, 9, 10, 5, 8, 4, 2, 1)
            seg = b2[a:e]
            if onat.ws(seg, w[10 - len(seg):]) % 11 == 0:
                return b2
        return None


# ------------------------------------------------------------------------------------------------- mutations

def single_replacements(text, alphabet):
    for i in range(len(text)):
        pre, post, old = text[:i], text[i + 1:], text[i]
        for ch in alphabet:
            if ch != old:
                yield i, ch, pre + ch + post


def single_insertions(text, alphabet, positions=None):
    """insert every alphabet character at the given positions (default: start, after 2, after 4, middle, end)."""
    n = len(text)
    positions = positions if positions is not None else sorted({0, 2, 4, n // 2, n})
    for i in positions:
        if i > n:
            continue
        for ch in alphabet:
            yield i, ch, text[:i] + ch + text[i:]


def length_variants(text, filler="0", upto=40):
    """truncate to every length, extend to every length up to `upto`, delete and duplicate at every position."""
    for n in range(0, len(text)):
        yield "trunc", text[:n]
    for n in range(len(text) + 1, upto + 1):
        yield "extend", text + filler * (n - len(text))
    for i in range(len(text)):
        yield "delete", text[:i] + text[i + 1:]
        yield "dup", text[:i] + text[i] + text[i:]
    for i in range(len(text) - 1):
        if text[i] != text[i + 1]:
            yield "swap", text[:i] + text[i + 1] + text[i] + text[i + 2:]


# ---------------------------------------------------------------------------------------------- whole code space

def ascii_equivalents(ch):
    """ASCII letters/digits a character turns into under some Unicode mapping a library might apply (the four normal
    forms, lower/upper/title/casefold, and their compositions with NFKC): a rewrite the statement does not allow."""
    import unicodedata
    out = set()
    forms = [ch]
    try:
        for f in ("NFC", "NFD", "NFKC", "NFKD"):
            forms.append(unicodedata.normalize(f, ch))
    except Exception:  # noqa: BLE001 (lone surrogates are fine for normalize; be safe)
        pass
    for f in list(forms):
        forms += [f.lower(), f.upper(), f.title(), f.casefold()]
    try:
        d = unicodedata.digit(ch, None)
        if d is not None:
            forms.append(str(d))
    except Exception:  # noqa: BLE001
        pass
    for f in forms:
        u = f.upper()
        if len(u) == 1 and u in ALNUM and u != ch.upper():
            out.add(u)
        elif len(u) > 1:
            core = "".join(c for c in u if not unicodedata.combining(c))
            if len(core) == 1 and core in ALNUM and core != ch.upper():
                out.add(core)
    return sorted(out)


def codepoint_chunks(n):
    """The whole code space 0..0x10FFFF (surrogates included) in n contiguous ranges."""
    step = (0x110000 + n - 1) // n
    return [(lo, min(lo + step, 0x110000)) for lo in range(0, 0x110000, step)]


_EQUIV = {}


def equivalents_table():
    """{ASCII letter/digit: [code points that some Unicode mapping turns into it]} (inverse of ascii_equivalents), built once."""
    if not _EQUIV:
        import unicodedata
        table = {a: [] for a in ALNUM}
        for cp in range(0x80, 0x110000):
            ch = chr(cp)
            if not (ch.isalnum() or unicodedata.decomposition(ch)):
                continue
            for a in ascii_equivalents(ch):
                table[a].append(ch)
        _EQUIV.update(table)
    return _EQUIV


def nested_iban_bbans(g, cc, rng, per=2):
    """BBANs of `cc` that are, as a text, valid IBANs of another country (whose IBAN is as long as cc's BBAN and fits its
    structure): an input that is itself a valid instance of the neighbouring type."""
    o = g.o
    out = []
    n = o.bban_length(cc)
    for s_ in o.countries():
        if s_ == cc or o.bban_length(s_) + 4 != n:
            continue
        for _ in range(per * 4):
            t = g.iban(s_, rng)
            if matches_structure(o.toks[cc], t):
                out.append((s_, t))
                if len([1 for x in out if x[0] == s_]) >= per:
                    break
    return out
