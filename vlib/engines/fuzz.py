"""Runs the atheris target as a secondary engine (thorough tier of C01, C04, C05) and folds its result into a Rec."""
from __future__ import annotations

import json
import os
import shutil
import subprocess
import sys
import tempfile

from ..runner import VERIF, Rec


def run_campaign(rec: Rec, mode: str, runs: int, seed: int, prop: str, accept_keys=None):
    """mode 'iban-c01'|'iban-c05'|'bic-c04'|'bic-c05'. Two campaigns: empty corpus and the literal corpus. Failures are
    re-recorded into rec (the relation functions are those of the property module)."""
    target = os.path.join(VERIF, "fuzz", "target.py")
    try:
        import atheris  # noqa: F401
    except Exception as e:  # noqa: BLE001
        rec.notes.append(f"atheris not importable ({e}); fuzz engine skipped")
        return
    total = {"runs": 0, "accepted": 0, "nonascii": 0, "edited": 0}
    for corpus_kind in ("empty", "literals"):
        work = tempfile.mkdtemp(prefix="verif-fuzz-")
        try:
            corpus = os.path.join(work, "corpus")
            os.makedirs(corpus)
            if corpus_kind == "literals":
                src = os.path.join(VERIF, "fuzz", f"corpus_{mode.split('-')[0]}")
                for n in os.listdir(src):
                    shutil.copy(os.path.join(src, n), corpus)
            out = os.path.join(work, "out.json")
            cmd = [sys.executable, target, mode, out, corpus, f"-runs={runs}", f"-seed={seed or 1}", "-max_len=256",
                   f"-artifact_prefix={work}/", "-print_final_stats=0", "-verbosity=0"]
            p = subprocess.run(cmd, capture_output=True, text=True, cwd=work, timeout=3600)
            res = None
            if os.path.exists(out):
                with open(out) as fp:
                    res = json.load(fp)
            if res:
                for k in total:
                    total[k] += res["stats"].get(k, 0)
            if res and res.get("failure"):
                f = res["failure"]
                if accept_keys is None or accept_keys(f["key"]):
                    rec.fail(f["key"], f["relation"], f["input"], f.get("expected"), f.get("observed"))
            elif p.returncode != 0:
                rec.notes.append(f"atheris {mode}/{corpus_kind} exited {p.returncode}: {p.stderr[-300:]}")
            else:
                # libFuzzer ended normally; stats in the file are from the last periodic flush
                total["runs"] = max(total["runs"], 0)
        finally:
            shutil.rmtree(work, ignore_errors=True)
    rec.evals += total["runs"]
    rec.classes[f"atheris-{mode}-runs"] += total["runs"]
    rec.classes[f"atheris-{mode}-accepted"] += total["accepted"]
    rec.sample(f"atheris-{mode}", {"campaigns": ["empty corpus", "literal corpus"], "runs_per_campaign": runs, **total})
