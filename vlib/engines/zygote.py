"""Fresh-process reference (DESIGN 6.4): a helper process imports the library and makes no call; every request is
evaluated in a fork of it, i.e. exactly 'the first call in a fresh process'."""
from __future__ import annotations

import json
import os
import subprocess
import sys


class Zygote:
    def __init__(self):
        self.p = subprocess.Popen([sys.executable, "-m", "vlib.engines.zygote"], stdin=subprocess.PIPE, stdout=subprocess.PIPE,
                                  text=True, bufsize=1, env=dict(os.environ))
        hello = self.p.stdout.readline()
        if not hello.startswith("READY"):
            raise RuntimeError(f"zygote failed to start: {hello!r}")
        self.memo = {}
        self.requests = 0

    def reference(self, desc):
        key = json.dumps(desc, sort_keys=True)
        if key in self.memo:
            return self.memo[key]
        self.p.stdin.write(key + "\n")
        self.p.stdin.flush()
        line = self.p.stdout.readline()
        if not line:
            raise RuntimeError("zygote died")
        out = json.loads(line)
        self.memo[key] = out
        self.requests += 1
        return out

    def history(self, history):
        """Run a whole history in a fork of the pristine zygote (used to minimise and to replay failing histories)."""
        self.p.stdin.write(json.dumps({"history": history}) + "\n")
        self.p.stdin.flush()
        line = self.p.stdout.readline()
        if not line:
            raise RuntimeError("zygote died")
        return json.loads(line)

    def concurrent(self, descs, schedule=(), loc_points=(), opcode=False, third_party=False):
        """Run calls concurrently under a schedule in a fork of the pristine zygote (cold library state)."""
        self.p.stdin.write(json.dumps({"concurrent": {"calls": descs, "schedule": list(schedule), "loc_points": list(loc_points),
                                                      "opcode": opcode, "third_party": third_party}}) + "\n")
        self.p.stdin.flush()
        line = self.p.stdout.readline()
        if not line:
            raise RuntimeError("zygote died")
        return json.loads(line)

    def trace(self, desc, third_party=False):
        """Distinct library locations a call passes when it is the first call of a fresh process."""
        self.p.stdin.write(json.dumps({"trace": desc, "third_party": third_party}) + "\n")
        self.p.stdin.flush()
        line = self.p.stdout.readline()
        if not line:
            raise RuntimeError("zygote died")
        return json.loads(line)

    def close(self):
        try:
            self.p.stdin.close()
            self.p.wait(5)
        except Exception:  # noqa: BLE001
            self.p.kill()


def _serve():
    import schwifty  # noqa: F401  - import only; no library call is made in the zygote itself
    from vlib import calls
    base = calls.registry_snapshot()     # reads the registries built at import; no library call
    repo = os.environ.get("VERIF_REPO", "/repo")
    sys.stdout.write("READY\n")
    sys.stdout.flush()
    for line in sys.stdin:
        line = line.strip()
        if not line:
            continue
        desc = json.loads(line)
        r, w = os.pipe()
        pid = os.fork()
        if pid == 0:
            try:
                os.close(r)
                if "history" in desc:
                    data = json.dumps(calls.run_history(desc["history"], base)).encode()
                elif "concurrent" in desc:
                    from vlib.engines import sched
                    c = desc["concurrent"]
                    try:
                        outs, info = sched.run_concurrently([(lambda d=d: calls.outcome(d)) for d in c["calls"]],
                                                            [tuple(x) for x in c["schedule"]], repo, c.get("opcode", False),
                                                            loc_points=[tuple(x) for x in c.get("loc_points", [])],
                                                            third_party=c.get("third_party", False))
                        data = json.dumps({"outcomes": outs, "switches": info["switches"], "steps": info["steps"]}).encode()
                    except sched.SchedulerError as e:
                        data = json.dumps({"error": str(e)}).encode()
                elif "trace" in desc:
                    from vlib.engines import sched
                    out, locs, counts = sched.trace_location_counts(lambda: calls.outcome(desc["trace"]), repo,
                                                                    desc.get("third_party", False))
                    data = json.dumps({"outcome": out, "locs": locs, "counts": counts}).encode()
                else:
                    data = json.dumps(calls.outcome(desc)).encode()
                os.write(w, data)
            finally:
                os._exit(0)
        os.close(w)
        chunks = []
        while True:
            b = os.read(r, 65536)
            if not b:
                break
            chunks.append(b)
        os.close(r)
        os.waitpid(pid, 0)
        sys.stdout.write(b"".join(chunks).decode() + "\n")
        sys.stdout.flush()


if __name__ == "__main__":
    _serve()
