"""Package copies: the tree's schwifty code with generated registry directories, queried in a child interpreter.

A copy lives in a fresh temporary directory outside /repo and /verif and is removed by the caller (use `with`).
"""
from __future__ import annotations

import json
import os
import shutil
import subprocess
import sys
import tempfile

AGENT = os.path.join(os.path.dirname(os.path.abspath(__file__)), "pkgagent.py")


class PackageCopy:
    def __init__(self, repo, iban_files=None, bank_files=None, keep_bundled_iban=True, keep_bundled_bank=False, other_files=None):
        """iban_files / bank_files: {file name: JSON-able document} written in addition to (or instead of) the bundled ones.
        other_files: {path relative to the package: text} - files that are NOT registry files (wrong suffix, sub-directory)."""
        self.repo = repo
        self.dir = tempfile.mkdtemp(prefix="verif-pkg-")
        src = os.path.join(repo, "schwifty")
        dst = os.path.join(self.dir, "schwifty")
        os.makedirs(os.path.join(dst, "checksum"))
        for name in os.listdir(src):
            if name.endswith(".py") or name == "py.typed":
                shutil.copy(os.path.join(src, name), os.path.join(dst, name))
        for name in os.listdir(os.path.join(src, "checksum")):
            if name.endswith(".py"):
                shutil.copy(os.path.join(src, "checksum", name), os.path.join(dst, "checksum", name))
        for sub, files, keep in (("iban_registry", iban_files, keep_bundled_iban), ("bank_registry", bank_files, keep_bundled_bank)):
            os.makedirs(os.path.join(dst, sub))
            if keep:
                for name in os.listdir(os.path.join(src, sub)):
                    if name.endswith(".json"):
                        shutil.copy(os.path.join(src, sub, name), os.path.join(dst, sub, name))
            for name, doc in (files or {}).items():
                with open(os.path.join(dst, sub, name), "w", encoding="utf-8") as fp:
                    json.dump(doc, fp)
        for rel, text in (other_files or {}).items():
            path = os.path.join(dst, rel)
            os.makedirs(os.path.dirname(path), exist_ok=True)
            with open(path, "w", encoding="utf-8") as fp:
                fp.write(text)
        self.iban_dir = os.path.join(dst, "iban_registry")
        self.bank_dir = os.path.join(dst, "bank_registry")

    def query(self, ops, timeout=120):
        """Run a batch of operations in a child interpreter importing the copy. Returns list of results or raises."""
        env = dict(os.environ)
        env["PYTHONPATH"] = os.pathsep.join([self.dir])
        env["PYTHONHASHSEED"] = "0"
        env["PYTHONDONTWRITEBYTECODE"] = "1"
        env.pop("PYTHONPYCACHEPREFIX", None)
        p = subprocess.run([sys.executable, AGENT, self.dir], input=json.dumps(ops), capture_output=True, text=True,
                           env=env, timeout=timeout)
        if p.returncode != 0:
            return {"import_error": p.stderr[-2000:]}
        return json.loads(p.stdout)

    def close(self):
        shutil.rmtree(self.dir, ignore_errors=True)

    def __enter__(self):
        return self

    def __exit__(self, *a):
        self.close()
