"""Deterministic thread scheduler (DESIGN 6.3).

Each concurrent call runs in a real thread. A trace function blocks the thread at every `line` (optionally every
`opcode`) event of a frame whose code lives under <repo>/schwifty/, until it holds the baton. Exactly one thread
runs at a time, so an execution is a pure function of (calls, schedule). Code outside the library is atomic.

A schedule is a list of preemption points (global_step, thread): when the global step counter reaches global_step
the baton goes to `thread` (if it is alive and not the running one). A finished thread hands over to the lowest
alive one.
"""
from __future__ import annotations

import os
import sys
import threading


class SchedulerError(Exception):
    pass


class Run:
    def __init__(self, n, schedule, prefix, opcode=False, max_steps=2000000, loc_points=(), record_locs=False):
        self.n = n
        self.events = [threading.Event() for _ in range(n)]
        self.alive = [True] * n
        self.current = 0
        self.step = 0
        self.points = {}
        for s, t in schedule:
            self.points.setdefault(int(s), int(t))
        self.prefix = prefix
        self.opcode = opcode
        self.max_steps = max_steps
        self.steps_of = [0] * n
        self.switches = []          # (global step, from, to, both inside library?)
        self.inside = [False] * n   # thread has entered library code and not finished
        self.outcomes = [None] * n
        self.error = None
        self.blocked = set()
        self.steals = 0
        self.started = False
        # location-based preemption points: (thread, "file.py:line", occurrence) -> thread to switch to
        self.loc_points = {(int(t), loc, int(occ)): int(to) for t, loc, occ, to in loc_points}
        self.want_locs = bool(self.loc_points) or record_locs
        self.loc_counts = {}
        self.locs = [[] for _ in range(n)]      # distinct locations per thread in order of first arrival (record mode)
        self.record_locs = record_locs

    # ---- called from worker threads --------------------------------------------------------------
    def _wait(self, i):
        """Block until thread i holds the baton. If the baton holder makes no progress for a while it is assumed to be
        blocked in a real lock that a waiting thread holds (third-party code has locks of its own): the waiting thread then
        takes the baton back; the blocked thread re-queues at its next traced line (see yield_point)."""
        ev = self.events[i]
        waited = 0.0
        last = (self.step, self.current)
        while not ev.wait(0.25):
            waited += 0.25
            now = (self.step, self.current)
            if now != last:
                last, waited = now, 0.0
                continue
            if waited >= 1.0 and self.started and self.current != i and self.alive[self.current]:
                self.blocked.add(self.current)
                self.steals += 1
                self.current = i
                return
            if waited >= 30:
                self.error = f"thread {i} starved (scheduler deadlock)"
                raise SchedulerError(self.error)
        ev.clear()

    def yield_point(self, i, loc=None):
        # only the baton holder executes this - except a thread that was assumed blocked and has come back to life
        if self.current != i:
            self.blocked.discard(i)
            self._wait(i)
        self.step += 1
        self.steps_of[i] += 1
        if self.step > self.max_steps:
            raise SchedulerError("step limit")
        t = self.points.get(self.step)
        if loc is not None:
            k = (i, loc)
            c = self.loc_counts.get(k, 0) + 1
            self.loc_counts[k] = c
            if c == 1 and self.record_locs:
                self.locs[i].append(loc)
            t2 = self.loc_points.get((i, loc, c))
            if t2 is not None:
                t = t2
        if t is not None and t != i and 0 <= t < self.n and self.alive[t]:
            self.switches.append((self.step, i, t, self.inside[t] and self.inside[i]))
            self.current = t
            self.events[t].set()
            self._wait(i)

    def finished(self, i):
        self.alive[i] = False
        self.inside[i] = False
        if self.current != i and self.alive[self.current]:
            return            # a thread that was assumed blocked finished while another one holds the baton
        for t in range(self.n):
            if self.alive[t]:
                self.current = t
                self.events[t].set()
                return

    def make_tracer(self, i):
        prefix = self.prefix
        opcode = self.opcode
        run = self

        want_locs = self.want_locs
        base = os.path.basename

        def local(frame, event, arg):
            if event == "line" or event == "opcode":
                run.inside[i] = True
                if want_locs:
                    run.yield_point(i, f"{base(frame.f_code.co_filename)}:{frame.f_lineno}")
                else:
                    run.yield_point(i)
            return local

        def tracer(frame, event, arg):
            if event == "call" and frame.f_code.co_filename.startswith(prefix):     # prefix: str or tuple of str
                if opcode:
                    frame.f_trace_opcodes = True
                return local
            return None
        return tracer


def third_party_prefixes():
    """Source directories of the third-party packages the library calls into (their Python frames can be preemption points
    too: a race may sit in a loop that runs inside one C-level call of the library, e.g. set.update(generator))."""
    out = []
    for name in ("pycountry", "rstr"):
        try:
            mod = __import__(name)
            out.append(os.path.dirname(os.path.abspath(mod.__file__)) + os.sep)
        except Exception:  # noqa: BLE001
            pass
    return tuple(out)


def run_concurrently(calls, schedule, repo, opcode=False, timeout=120, loc_points=(), record_locs=False, third_party=False,
                     untraced=()):
    """calls: list of zero-argument callables. Returns (outcomes, info). outcome = ('ok', value) | ('exc', type name, str).
    schedule: [(global step, thread)]; loc_points: [(thread, 'file.py:line', occurrence, thread to switch to)]."""
    prefix = os.path.join(os.path.abspath(repo), "schwifty") + os.sep
    if third_party:
        prefix = (prefix,) + third_party_prefixes()
    run = Run(len(calls), schedule, prefix, opcode, loc_points=loc_points, record_locs=record_locs)

    def worker(i):
        try:
            run._wait(i)                      # nobody runs before the controller hands out the baton
            if i not in untraced:             # an untraced thread runs to its end once it holds the baton (a long burst of work)
                sys.settrace(run.make_tracer(i))
            try:
                try:
                    run.outcomes[i] = ("ok", calls[i]())
                except SchedulerError:
                    raise
                except BaseException as e:  # noqa: BLE001
                    run.outcomes[i] = ("exc", type(e).__name__, str(e))
            finally:
                sys.settrace(None)
        except SchedulerError as e:
            run.error = run.error or str(e)
            run.outcomes[i] = ("sched", str(e))
        finally:
            run.finished(i)

    threads = [threading.Thread(target=worker, args=(i,), daemon=True) for i in range(len(calls))]
    for t in threads:
        t.start()
    run.started = True
    run.events[0].set()
    for t in threads:
        t.join(timeout)
        if t.is_alive():
            raise SchedulerError("worker did not finish (deadlock in scheduler or library)")
    if run.error:
        raise SchedulerError(run.error)
    info = {"steps": run.step, "steps_of": run.steps_of, "switches": run.switches, "locs": run.locs, "steals": run.steals,
            "loc_counts": dict(run.loc_counts)}
    return run.outcomes, info


def run_alone(call, repo, opcode=False):
    """Outcome and step count of a call run alone under the same tracer (no preemption)."""
    out, info = run_concurrently([call], [], repo, opcode)
    return out[0], info["steps"]


def trace_locations(call, repo, third_party=False):
    """Distinct library locations ('file.py:line') a call passes, in order of first arrival, and its outcome."""
    out, info = run_concurrently([call], [], repo, record_locs=True, third_party=third_party)
    return out[0], info["locs"][0]


def trace_location_counts(call, repo, third_party=False):
    """As trace_locations, plus how often each location was passed (for preemption at later occurrences, e.g. inside loops)."""
    out, info = run_concurrently([call], [], repo, record_locs=True, third_party=third_party)
    return out[0], info["locs"][0], {loc: n for (t, loc), n in info["loc_counts"].items() if t == 0}
