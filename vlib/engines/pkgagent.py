"""Child-side agent of a package copy: reads a JSON list of operations on stdin, answers with a JSON list.

Runs with PYTHONPATH=<copy>, so `import schwifty` is the copy. Only stdlib + schwifty are imported here.
"""
import json
import os
import sys


def main():
    root = sys.argv[1]
    ops = json.load(sys.stdin)
    import schwifty
    assert os.path.abspath(schwifty.__file__).startswith(os.path.abspath(root) + os.sep), schwifty.__file__
    from schwifty import BBAN, BIC, IBAN, registry
    from schwifty.exceptions import SchwiftyException

    def guard(fn):
        try:
            return {"ok": fn()}
        except SchwiftyException as e:
            return {"err": type(e).__name__, "msg": str(e)}
        except Exception as e:  # noqa: BLE001
            return {"crash": type(e).__name__, "msg": str(e)}

    def strip(v):
        if isinstance(v, dict):
            return {k: strip(x) for k, x in v.items() if k != "regex"}
        if isinstance(v, list):
            return [strip(x) for x in v]
        return v

    COMPONENTS = ("account_id", "account_type", "account_code", "account_holder_id", "currency_code", "bank_code",
                  "branch_code", "national_checksum_digits")
    out = []
    for op in ops:
        k = op["op"]
        if k == "registry":
            out.append(guard(lambda: strip(registry.get(op["name"]))))
        elif k == "candidates":
            out.append(guard(lambda: [str(b) for b in BIC.candidates_from_bank_code(op["cc"], op["code"])]))
        elif k == "from_bank_code":
            out.append(guard(lambda: str(BIC.from_bank_code(op["cc"], op["code"]))))
        elif k == "bic_info":
            def f():
                b = BIC(op["bic"], allow_invalid=True)
                return {"domestic_bank_codes": b.domestic_bank_codes, "exists": b.exists, "bank_names": b.bank_names,
                        "bank_short_names": b.bank_short_names}
            out.append(guard(f))
        elif k == "bic_verdict":
            out.append(guard(lambda: str(BIC(op["text"], enforce_swift_compliance=op.get("strict", False)))))
        elif k == "iban_verdict":
            out.append(guard(lambda: str(IBAN(op["text"], validate_bban=op.get("validate_bban", False)))))
        elif k == "iban_info":
            def f():
                i = IBAN(op["text"], allow_invalid=op.get("allow_invalid", False))
                bic = i.bic
                return {"compact": str(i), "bic": None if bic is None else str(bic), "bank": i.bank, "bank_name": i.bank_name,
                        "bank_short_name": i.bank_short_name, "components": {c: getattr(i, c) for c in COMPONENTS},
                        "in_sepa_zone": i.spec.get("in_sepa_zone")}
            out.append(guard(f))
        elif k == "from_bban":
            out.append(guard(lambda: str(IBAN.from_bban(op["cc"], op["bban"]))))
        elif k == "generate":
            out.append(guard(lambda: str(IBAN.generate(op["cc"], bank_code=op["bank_code"], account_code=op["account_code"],
                                                       branch_code=op.get("branch_code", "")))))
        elif k == "random":
            def f():
                from random import Random
                return str(IBAN.random(op.get("cc", ""), random=Random(op["seed"]), use_registry=op.get("use_registry", True)))
            out.append(guard(f))
        elif k == "merge_dicts":
            out.append(guard(lambda: registry.merge_dicts(op["left"], op["right"])))
        else:
            out.append({"crash": "UnknownOp", "msg": k})
    json.dump(out, sys.stdout)


if __name__ == "__main__":
    main()
