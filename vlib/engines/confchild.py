"""Child for the interpreter-configuration stage: evaluates a batch of vlib.calls descriptors in a fresh interpreter started
with other flags (-O, -OO, another hash seed). Reads JSON on stdin, writes the outcomes as JSON."""
import json
import sys

if __name__ == "__main__":
    batch = json.load(sys.stdin)
    from vlib import calls
    json.dump([calls.outcome(d) for d in batch], sys.stdout)
