"""Child for C13: evaluates a batch of seeded random-generation calls in a fresh interpreter (own PYTHONHASHSEED)."""
import json
import sys
from random import Random


def evaluate(call):
    from schwifty import BBAN, IBAN
    from schwifty.exceptions import SchwiftyException
    cls = IBAN if call["cls"] == "IBAN" else BBAN
    try:
        kw = dict(call.get("pins", {}))
        r = cls.random(call["cc"], random=Random(call["seed"]), use_registry=call["use_registry"], **kw)
        return ["ok", str(r), getattr(r, "country_code", None)]
    except SchwiftyException as e:
        return ["err", type(e).__name__]
    except Exception as e:  # noqa: BLE001
        return ["crash", type(e).__name__, str(e)[:200]]


if __name__ == "__main__":
    batch = json.load(sys.stdin)
    json.dump([evaluate(c) for c in batch], sys.stdout)
