"""Common machinery: launcher, context, recorder, process pool, evidence, replay, known findings.

Usage (through ./check):   check <Cxx> <quick|thorough>      check <Cxx> --replay <file>
Exit codes: 0 held on everything explored (KNOWN-FINDING lines possible), 1 VIOLATION, 2 harness error.
"""
from __future__ import annotations

import hashlib
import importlib
import json
import os
import random
import re
import shutil
import subprocess
import sys
import time
import traceback
from collections import Counter

VERIF = os.path.dirname(os.path.dirname(os.path.abspath(__file__)))
NPROC = int(os.environ.get("VERIF_NPROC", "16"))


class HarnessError(Exception):
    """The harness (generator, oracle, engine) is inconsistent: exit 2, never a violation."""


# ----------------------------------------------------------------------------------------------- recorder

class Rec:
    """What a run (or a shard of it) covered. Mergeable; pickles cheaply."""

    MAX_SAMPLES_PER_CLASS = 2
    MAX_FAIL_KEYS = 25

    def __init__(self):
        self.evals = 0
        self.nt = set()            # 64-bit hashes of distinct non-trivial cases
        self.nt_extra = 0          # distinct counts of shards whose sets were dropped (large runs)
        self.classes = Counter()
        self.samples = {}          # class -> list of cases
        self.fails = {}            # key -> smallest failing case (dict)
        self.fail_counts = Counter()
        self.excluded = Counter()
        self.notes = []
        self.exhaustive = []       # names of sub-domains enumerated completely

    # hot-path helpers -----------------------------------------------------------------------------
    def case(self, cls, nontrivial=None, sample=None):
        self.evals += 1
        self.classes[cls] += 1
        if nontrivial is not None:
            self.nt.add(hash(nontrivial))
        if sample is not None:
            lst = self.samples.setdefault(cls, [])
            if len(lst) < self.MAX_SAMPLES_PER_CLASS:
                lst.append(sample)

    def sample(self, cls, sample):
        lst = self.samples.setdefault(cls, [])
        if len(lst) < self.MAX_SAMPLES_PER_CLASS:
            lst.append(sample)

    def fail(self, key, relation, input, expected=None, observed=None, **extra):
        """Record a failing case under a root-cause key; the smallest witness per key is kept."""
        self.fail_counts[key] += 1
        case = {"relation": relation, "input": input, "expected": expected, "observed": observed, "key": key}
        case.update(extra)
        size = len(json.dumps(case["input"], default=repr, ensure_ascii=True))
        old = self.fails.get(key)
        if old is None:
            if len(self.fails) >= self.MAX_FAIL_KEYS:
                return
            case["_size"] = size
            self.fails[key] = case
        elif size < old["_size"]:
            case["_size"] = size
            self.fails[key] = case

    def merge(self, other: "Rec"):
        self.evals += other.evals
        if len(self.nt) + len(other.nt) > 6_000_000:
            self.nt_extra += len(other.nt)
        else:
            self.nt |= other.nt
        self.nt_extra += other.nt_extra
        self.classes.update(other.classes)
        for c, lst in other.samples.items():
            mine = self.samples.setdefault(c, [])
            for s in lst:
                if len(mine) < self.MAX_SAMPLES_PER_CLASS:
                    mine.append(s)
        for k, n in other.fail_counts.items():
            self.fail_counts[k] += n
        for k, case in other.fails.items():
            old = self.fails.get(k)
            if old is None:
                if len(self.fails) < self.MAX_FAIL_KEYS:
                    self.fails[k] = case
            elif case["_size"] < old["_size"]:
                self.fails[k] = case
        self.excluded.update(other.excluded)
        self.notes.extend(other.notes)
        self.exhaustive.extend(other.exhaustive)

    @property
    def distinct_nontrivial(self):
        return len(self.nt) + self.nt_extra


# ----------------------------------------------------------------------------------------------- context

class Ctx:
    def __init__(self, prop, tier, seed):
        self.prop = prop
        self.tier = tier
        self.quick = tier == "quick"
        self.seed = seed
        self.repo = os.environ.get("VERIF_REPO", "/repo")
        self.rec = Rec()
        self.t0 = time.time()
        self.rule = ""
        self.explanation = ""
        self.assumptions = []
        self.extra = {}
        self.required_classes = []
        self.budget_s = float(os.environ.get("VERIF_BUDGET_S", "0") or 0) or (150 if self.quick else 1500)
        self.budget_hit = False

    def pick(self, quick, thorough):
        return quick if self.quick else thorough

    def rng(self, tag="") -> random.Random:
        return random.Random(f"{self.seed}:{self.prop}:{tag}")

    def elapsed(self):
        return time.time() - self.t0

    def time_left(self):
        left = self.budget_s - self.elapsed()
        if left <= 0:
            self.budget_hit = True
        return left

    def pmap(self, fn, shards, procs=None):
        """Run fn(shard) -> Rec over a fork pool; merge into self.rec. Shard boundaries are fixed by the caller."""
        import multiprocessing as mp
        shards = list(shards)
        if not shards:
            return
        t_phase = time.time()
        try:
            self._pmap(fn, shards, procs)
        finally:
            self.extra.setdefault("phase_s", []).append([fn.__name__, len(shards), round(time.time() - t_phase, 1)])

    def _pmap(self, fn, shards, procs=None):
        import multiprocessing as mp
        procs = min(procs or NPROC, len(shards))
        if procs <= 1:
            for s in shards:
                self.rec.merge(_shard_call((fn, s)))
            return
        ctx = mp.get_context("fork")
        errors = []
        with ctx.Pool(procs) as pool:
            for r in pool.imap_unordered(_shard_call, [(fn, s) for s in shards], chunksize=1):
                if isinstance(r, _ShardError):
                    errors.append(r.text)      # the other shards still report what they found
                    continue
                self.rec.merge(r)
        if errors:
            raise HarnessError(f"shard failed: {errors[0]}" + (f" (+{len(errors) - 1} more)" if len(errors) > 1 else ""))

    # hypothesis ---------------------------------------------------------------------------------------
    def hyp_explore(self, strategy, body, max_examples, name="hyp", shrink_keys=4, shrink_s=None):
        """Collect-then-shrink.  body(rec, value) records failures with rec.fail(); it must not raise for
        property failures.  Pass 1 runs all examples (so one shallow defect cannot hide the next); pass 2
        re-runs with the same seed per new failure key and lets Hypothesis shrink within that key."""
        import hypothesis
        from hypothesis import HealthCheck, Phase, given, settings

        rec = self.rec
        before = set(rec.fails)
        common = dict(database=None, deadline=None, derandomize=False, report_multiple_bugs=False,
                      suppress_health_check=list(HealthCheck), print_blob=False)

        @hypothesis.seed(self.seed)
        @settings(max_examples=max_examples, phases=[Phase.generate], **common)
        @given(strategy)
        def explore(v):
            body(rec, v)

        try:
            explore()
        except hypothesis.errors.HypothesisException as e:   # generator / health problems are harness errors
            if not [k for k in rec.fails if k not in before]:
                raise HarnessError(f"{name}: hypothesis error {type(e).__name__}: {e}") from e
            rec.notes.append(f"{name}: exploration ended early with {type(e).__name__} after violations had been recorded")

        new_keys = [k for k in rec.fails if k not in before]
        shrink_s = shrink_s if shrink_s is not None else (20 if self.quick else 120)
        for key in new_keys[:shrink_keys]:
            deadline = time.time() + shrink_s

            @hypothesis.seed(self.seed)
            @settings(max_examples=max_examples, phases=[Phase.generate, Phase.shrink], **common)
            @given(strategy)
            def shrink(v, key=key, deadline=deadline):
                if time.time() > deadline:
                    return
                tmp = Rec()
                body(tmp, v)
                if key in tmp.fails:
                    rec.fail_counts[key] -= 1      # fail() below counts again; keep the count of pass 1
                    c = tmp.fails[key]
                    rec.fail(key, c["relation"], c["input"], c["expected"], c["observed"],
                             **{k: v2 for k, v2 in c.items()
                                if k not in ("relation", "input", "expected", "observed", "key", "_size")})
                    raise AssertionError(key)
            try:
                shrink()
            except BaseException as e:  # noqa: BLE001 - AssertionError (shrunk), Flaky (deadline) are both fine
                if isinstance(e, (KeyboardInterrupt, SystemExit)):
                    raise

    def hyp_parallel(self, factory, body, max_examples, name="hyp", shards=None):
        """hyp_explore spread over the process pool: `factory` (zero-argument, module-level) builds the strategy inside each
        shard, `body` (module-level) is the relation; shard i uses seed VERIF_SEED*1000+i, so the whole is a function of the seed."""
        shards = shards or NPROC
        per = max(1, max_examples // shards)
        self.pmap(_hyp_shard, [(self.prop, self.tier, self.seed, i, factory.__module__, factory.__name__, body.__module__,
                                body.__name__, per, name) for i in range(shards)])

    # ----------------------------------------------------------------------------------------------
    def require_classes(self, *names):
        self.required_classes.extend(names)


def _hyp_shard(arg):
    prop, tier, seed, i, fmod, fname, bmod, bname, per, name = arg
    factory = getattr(importlib.import_module(fmod), fname)
    body = getattr(importlib.import_module(bmod), bname)
    sub = Ctx(prop, tier, seed * 1000 + i)
    sub.hyp_explore(factory(), body, per, name=f"{name}[{i}]", shrink_keys=2)
    return sub.rec


class _ShardError:
    def __init__(self, text):
        self.text = text


def _shard_call(arg):
    fn, shard = arg
    try:
        r = fn(shard)
        if not isinstance(r, Rec):
            return _ShardError(f"{fn.__name__}({repr(shard)[:80]}) returned {type(r).__name__}")
        return r
    except HarnessError as e:
        return _ShardError(f"{fn.__name__}({repr(shard)[:80]}): HarnessError {e}")
    except BaseException:  # noqa: BLE001
        return _ShardError(f"{fn.__name__}({repr(shard)[:80]}):\n{traceback.format_exc()}")


# ----------------------------------------------------------------------------------------------- findings

def load_known():
    path = os.path.join(VERIF, "known_findings.json")
    if not os.path.exists(path):
        return []
    with open(path, encoding="utf-8") as fp:
        return json.load(fp).get("findings", [])


def match_known(known, prop, case):
    blob = json.dumps(case.get("input"), default=repr, ensure_ascii=True, sort_keys=True)
    for k in known:
        if k.get("status") != "open" or k.get("property") != prop:
            continue
        if not re.fullmatch(k["key_regex"], case["key"]):
            continue
        if k.get("input_regex") and not re.search(k["input_regex"], blob):
            continue
        return k
    return None


def jsonable(x):
    try:
        json.dumps(x)
        return x
    except (TypeError, ValueError):
        if isinstance(x, dict):
            return {str(k): jsonable(v) for k, v in x.items()}
        if isinstance(x, (list, tuple, set, frozenset)):
            return [jsonable(v) for v in x]
        return repr(x)


def esc(s):
    """ASCII-safe rendering of arbitrary text for samples/log lines (the replay files keep exact text)."""
    return s.encode("ascii", "backslashreplace").decode("ascii") if isinstance(s, str) else s


def finish(ctx: Ctx) -> int:
    rec = ctx.rec
    known = load_known()
    violations, known_hits = [], {}
    for key, case in rec.fails.items():
        k = match_known(known, ctx.prop, case)
        if k is not None:
            known_hits.setdefault(k["id"], (k, 0))
            known_hits[k["id"]] = (k, known_hits[k["id"]][1] + rec.fail_counts[key])
            rec.excluded[f"known:{k['id']}"] += rec.fail_counts[key]
        else:
            violations.append((key, case))

    missing = [c for c in ctx.required_classes if rec.classes.get(c, 0) == 0]
    if missing and not violations:
        print(f"HARNESS-ERROR property={ctx.prop} empty generator classes: {missing}")
        return 2
    if rec.evals == 0 or rec.distinct_nontrivial < 2:
        if not violations:
            print(f"HARNESS-ERROR property={ctx.prop} vacuous run: evals={rec.evals} nontrivial={rec.distinct_nontrivial}")
            return 2

    replay_paths = []
    if violations:
        os.makedirs(os.path.join(VERIF, "replays"), exist_ok=True)
    for key, case in violations:
        body = {k: v for k, v in case.items() if k != "_size"}
        body.update(property=ctx.prop, seed=ctx.seed, tier=ctx.tier, count=rec.fail_counts[key])
        body = jsonable(body)
        h = hashlib.sha1(json.dumps(body, sort_keys=True, default=repr).encode()).hexdigest()[:10]
        path = os.path.join(VERIF, "replays", f"{ctx.prop}-{h}.json")
        with open(path, "w", encoding="utf-8") as fp:
            json.dump(body, fp, indent=1, ensure_ascii=True, default=repr)
        replay_paths.append((key, path))

    samples = []
    for cls in sorted(rec.samples):
        for s in rec.samples[cls]:
            samples.append({"class": cls, "case": jsonable(s)})
    samples = samples[:60]
    coverage = {
        "evaluations": rec.evals,
        "distinct_nontrivial": rec.distinct_nontrivial,
        "rule": ctx.rule,
        "samples": samples,
        "classes": dict(sorted(rec.classes.items())),
        "excluded": dict(sorted(rec.excluded.items())),
        "exhaustive": bool(rec.exhaustive),
        "exhaustive_subdomains": sorted(set(rec.exhaustive)),
        "explanation": ctx.explanation,
        "failure_keys": {k: rec.fail_counts[k] for k in rec.fails},
        "budget_hit": bool(ctx.budget_hit or rec.classes.get("budget")),
        "notes": rec.notes[:40],
    }
    coverage.update(jsonable(ctx.extra))
    evidence = {
        "property_id": ctx.prop,
        "tier": ctx.tier,
        "seed": ctx.seed,
        "level": "exploration",
        "coverage": coverage,
        "assumptions": ctx.assumptions,
        "wall_s": round(time.time() - ctx.t0, 2),
        "violations": len(violations),
    }
    # evidence/ describes /repo itself; runs against another tree (mutation runs) write under .work/
    evdir = (os.path.join(VERIF, "evidence") if os.path.abspath(ctx.repo) == "/repo"
             else os.path.join(VERIF, ".work", "evidence-other-tree"))
    os.makedirs(evdir, exist_ok=True)
    tmp = os.path.join(evdir, f".{ctx.prop}.json.tmp")
    with open(tmp, "w", encoding="utf-8") as fp:
        json.dump(evidence, fp, indent=1, ensure_ascii=True, default=repr)
    os.replace(tmp, os.path.join(evdir, f"{ctx.prop}.json"))

    for kid, (k, n) in sorted(known_hits.items()):
        print(f"KNOWN-FINDING: property={ctx.prop} {k['what']} [{kid}; {n} cases]")
    for key, path in replay_paths:
        print(f"VIOLATION property={ctx.prop} replay={path}")
        case = rec.fails[key]
        print(f"  key={esc(key)} count={rec.fail_counts[key]} relation={case['relation']}")
        print(f"  input={esc(json.dumps(jsonable(case['input']), default=repr))[:300]}")
        print(f"  expected={esc(str(case['expected']))[:200]} observed={esc(str(case['observed']))[:200]}")
    print(f"{ctx.prop} {ctx.tier} seed={ctx.seed}: evaluations={rec.evals} distinct_nontrivial={rec.distinct_nontrivial} "
          f"violations={len(violations)} known={len(known_hits)} wall={evidence['wall_s']}s"
          + (" (budget hit: exploration ended early, inconclusive beyond what was explored)" if ctx.budget_hit else ""))
    return 1 if violations else 0


# ----------------------------------------------------------------------------------------------- entry points

def child_main(argv):
    prop = argv[0].upper()
    mod = importlib.import_module(f"vlib.props.{prop.lower()}")
    seed = int(os.environ.get("VERIF_SEED", "1") or 1)
    if len(argv) >= 3 and argv[1] == "--replay":
        with open(argv[2], encoding="utf-8") as fp:
            case = json.load(fp)
        rec = Rec()
        mod.replay(rec, case)
        if rec.fails:
            key, c = next(iter(rec.fails.items()))
            print(f"VIOLATION property={prop} replay={os.path.abspath(argv[2])}")
            print(f"  key={esc(key)} expected={esc(str(c['expected']))[:200]} observed={esc(str(c['observed']))[:200]}")
            return 1
        print(f"{prop} replay: case no longer fails")
        return 0
    tier = argv[1] if len(argv) > 1 else os.environ.get("VERIF_TIER", "quick")
    if tier not in ("quick", "thorough"):
        print(f"unknown tier {tier!r}")
        return 2
    ctx = Ctx(prop, tier, seed)
    try:
        mod.run(ctx)
        return finish(ctx)
    except HarnessError as e:
        print(f"HARNESS-ERROR property={prop} {e}")
        return _violations_despite_harness_error(ctx)
    except Exception:  # noqa: BLE001
        print(f"HARNESS-ERROR property={prop} unexpected exception in harness:\n{traceback.format_exc()}")
        return _violations_despite_harness_error(ctx)


def _violations_despite_harness_error(ctx):
    """A part of the harness failed (exit 2) - but violations that other parts had already recorded are real, replayable
    findings: they are reported (exit 1). On a tree without violations nothing changes: exit 2."""
    if not ctx.rec.fails:
        return 2
    ctx.required_classes = []
    ctx.rec.notes.append("a part of this run ended in a harness error (see HARNESS-ERROR line); the violations below were recorded before it")
    try:
        rc = finish(ctx)
    except Exception:  # noqa: BLE001
        return 2
    return rc if rc == 1 else 2


def launcher(argv):
    """Re-run in a fresh interpreter with a pinned environment so that `import schwifty` is the working tree."""
    repo = os.path.abspath(os.environ.get("VERIF_REPO", "/repo"))
    env = dict(os.environ)
    env["VERIF_REPO"] = repo
    env["VERIF_CHILD"] = "1"
    env["PYTHONHASHSEED"] = "0"
    env["PYTHONPATH"] = os.pathsep.join([repo, os.path.join(VERIF, ".deps"), VERIF])
    env.setdefault("VERIF_SEED", "1")
    pyc = os.path.join(VERIF, ".work", "pyc")
    os.makedirs(pyc, exist_ok=True)
    # byte code of the tree under test is never reused (a same-size, same-second edit would defeat the cache)
    shutil.rmtree(os.path.join(pyc, repo.lstrip("/")), ignore_errors=True)
    env["PYTHONPYCACHEPREFIX"] = pyc
    env["PYTHONWARNINGS"] = "ignore"
    if not os.path.isdir(os.path.join(VERIF, ".deps", "hypothesis")):
        r = subprocess.call([os.path.join(VERIF, "setup.sh")], stdout=subprocess.DEVNULL)
        if r != 0:
            print("HARNESS-ERROR setup failed")
            return 2
    return subprocess.call([sys.executable, "-m", "vlib.runner", *argv], env=env, cwd=VERIF)


if __name__ == "__main__":
    from vlib import runner as _r   # the module under its real name, so that Rec/HarnessError are one class each
    if os.environ.get("VERIF_CHILD") == "1":
        sys.exit(_r.child_main(sys.argv[1:]))
    sys.exit(_r.launcher(sys.argv[1:]))
