"""JSON-able call descriptors and their evaluation (shared by C15's state machine and the fresh-process zygote)."""
from __future__ import annotations

import copy
import pickle
from random import Random

COMPONENTS = ("account_id", "account_type", "account_code", "account_holder_id", "currency_code", "bank_code",
              "branch_code", "national_checksum_digits")


def norm_out(v):
    from schwifty import BBAN, BIC, IBAN
    if isinstance(v, (IBAN, BIC, BBAN)):
        out = {"type": type(v).__name__, "str": str(v)}
        if isinstance(v, (IBAN, BBAN)):
            out["country_code"] = getattr(v, "country_code", None)
        if isinstance(v, IBAN):
            b = getattr(v, "bban", None)
            out["bban"] = None if b is None else [type(b).__name__, str(b), getattr(b, "country_code", None)]
        return out
    if isinstance(v, (str, int, bool)) or v is None:
        return v
    if type(v).__module__.startswith("pycountry"):
        return {"pycountry": type(v).__name__, "fields": norm_out(dict(getattr(v, "_fields", {})))}
    if isinstance(v, dict):
        return {str(k): norm_out(x) for k, x in v.items()}
    if isinstance(v, (list, tuple)):
        return [norm_out(x) for x in v]
    return repr(v)


def create(d):
    """Build the object a creation descriptor describes (never validates: allow_invalid objects are the stored ones)."""
    from schwifty import BBAN, BIC, IBAN
    k = d["kind"]
    if k == "iban":
        return IBAN(d["text"], allow_invalid=True)
    if k == "bic":
        return BIC(d["text"], allow_invalid=True)
    if k == "bban":
        return BBAN(d["cc"], d["text"])
    raise ValueError(k)


def apply_obj(obj, what, arg=None):
    if what == "validate":
        if arg is None:
            return obj.validate()
        return obj.validate(**arg)
    if what == "snapshot":
        out = {"str": str(obj), "compact": obj.compact, "type": type(obj).__name__}
        if type(obj).__name__ in ("IBAN", "BBAN"):
            out["country_code"] = obj.country_code
            try:
                out["components"] = {c: getattr(obj, c) for c in COMPONENTS}
            except Exception as e:  # noqa: BLE001
                out["components"] = type(e).__name__
        if type(obj).__name__ == "IBAN":
            out["checksum_digits"] = obj.checksum_digits
            out["bban"] = [type(obj.bban).__name__, str(obj.bban), obj.bban.country_code]
        if type(obj).__name__ == "BIC":
            out["parts"] = [obj.bank_code, obj.country_code, obj.location_code, obj.branch_code]
        return out
    if what == "copy":
        return copy.copy(obj)
    if what == "deepcopy":
        return copy.deepcopy(obj)
    if what == "pickle":
        return pickle.loads(pickle.dumps(obj))
    if what == "rewrap_bban":
        # hand the object's own BBAN to the BBAN constructor under another country: must not alter the original object
        from schwifty import BBAN
        b = obj.bban if type(obj).__name__ == "IBAN" else obj
        return BBAN(arg["cc"], b)
    if what == "national":
        return obj.bban.validate_national_checksum() if type(obj).__name__ == "IBAN" else obj.validate_national_checksum()
    return getattr(obj, what)          # property read: is_valid, bic, bank, bank_name, formatted, domestic_bank_codes, ...


def run_call(d, obj=None):
    """Evaluate a descriptor. `obj` = the stored object for 'obj' ops (in-process history); otherwise it is re-created."""
    from schwifty import BBAN, BIC, IBAN
    op = d["op"]
    if op == "iban":
        return IBAN(d["text"], allow_invalid=d.get("allow_invalid", False), validate_bban=d.get("validate_bban", False))
    if op == "bic":
        return BIC(d["text"], allow_invalid=d.get("allow_invalid", False),
                   enforce_swift_compliance=d.get("strict", False))
    if op == "generate":
        return IBAN.generate(d["cc"], bank_code=d["bank_code"], account_code=d["account_code"], branch_code=d.get("branch_code", ""))
    if op == "from_components":
        return BBAN.from_components(d["cc"], **d["values"])
    if op == "from_bban":
        b = BBAN(d.get("bban_cc", d["cc"]), d["bban"]) if d.get("as_object") else d["bban"]
        return IBAN.from_bban(d["cc"], b, validate_bban=d.get("validate_bban", False))
    if op == "bban":
        # BBAN(cc, value) where value may be the BBAN object of a stored IBAN ('obj' given) or a plain text
        return BBAN(d["cc"], d["text"])
    if op == "iban_of_object":
        inner = IBAN(d["text"], allow_invalid=True)
        return IBAN(inner, validate_bban=d.get("validate_bban", False))
    if op == "random":
        cls = IBAN if d.get("cls", "IBAN") == "IBAN" else BBAN
        return cls.random(d["cc"], random=Random(d["seed"]), use_registry=d.get("use_registry", True), **d.get("pins", {}))
    if op == "from_bank_code":
        return BIC.from_bank_code(d["cc"], d["code"])
    if op == "candidates":
        return BIC.candidates_from_bank_code(d["cc"], d["code"])
    if op == "de":
        from schwifty.checksum import algorithms
        algo = algorithms["DE:" + d["method"]]
        if d.get("how") == "compute":
            return algo.compute([d["account"]])
        return algo.validate([d["account"]], "")
    if op == "algo":
        # a registered national algorithm object handed a list of components (the observation point C07 uses for Germany)
        from schwifty.checksum import algorithms
        algo = algorithms[d["key"]]
        if d.get("how") == "validate":
            return algo.validate(list(d["components"]), d.get("expected", ""))
        return algo.compute(list(d["components"]))
    if op == "obj":
        o = obj if obj is not None else create(d["create"])
        return apply_obj(o, d["what"], d.get("arg"))
    raise ValueError(op)


def outcome(d, obj=None):
    """JSON-able outcome: ['ok', value] | ['exc', type name, message]."""
    try:
        v = run_call(d, obj)
        out = ["ok", norm_out(v)]
        if type(v) is list:
            # the caller owns a returned list: what it does to it (sort, filter, pop) is not the library's business and must
            # not show in any later answer
            v.reverse()
            del v[1:]
            v.append("changed-by-caller")
        return out
    except BaseException as e:  # noqa: BLE001 - the outcome of a failing call is its exception
        return ["exc", type(e).__name__, str(e)]


# ------------------------------------------------------------------------------------------------ registries, histories

def freeze(v):
    import re
    if isinstance(v, re.Pattern):
        return ("re", v.pattern, v.flags)
    if isinstance(v, dict):
        return {k: freeze(x) for k, x in v.items()}
    if isinstance(v, (list, tuple)):
        return [freeze(x) for x in v]
    return v


def registry_snapshot():
    """Deep copy of the registries (compiled patterns are atomic for deepcopy, so they stay the identical objects)."""
    import copy as _copy
    from schwifty import registry
    return {str(k): _copy.deepcopy(v) for k, v in registry._registry.items()}


def registry_diff(base):
    """None if the registries equal `base`, else the name of the first differing one. C-level ==: lists are compared
    in order (an in-place sort is a difference), dictionaries by content."""
    from schwifty import registry
    now = registry._registry
    names = {str(k): k for k in now}
    if names.keys() != base.keys():
        return "set of registries: " + ",".join(sorted(set(names) ^ set(base)))
    for name, key in names.items():
        if now[key] != base[name]:
            return name
    return None


def run_history(history, base=None):
    """Execute a history (list of descriptors; {'op': 'create'} stores an object used by later 'obj' steps).
    Returns {'outcomes': [...], 'snapshots_changed': bool, 'registry': None | name}."""
    import json
    stored = {}
    outcomes = []
    changed = False
    for d in history:
        if d["op"] == "create":
            key = json.dumps(d["create"], sort_keys=True)
            obj = create(d["create"])
            stored[key] = (obj, norm_out(apply_obj(obj, "snapshot")))
            outcomes.append(None)
            continue
        obj = None
        if d["op"] == "obj":
            ent = stored.get(json.dumps(d["create"], sort_keys=True))
            obj = ent[0] if ent else None
        outcomes.append(outcome(d, obj))
        for o_, snap in stored.values():
            if norm_out(apply_obj(o_, "snapshot")) != snap:
                changed = True
    return {"outcomes": outcomes, "snapshots_changed": changed,
            "registry": registry_diff(base) if base is not None else None}
