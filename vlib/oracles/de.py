"""O-de: three-valued reference for the Bundesbank check-digit methods (DESIGN Appendix A).

ref(method, acc) with acc the 10-character account -> True / False / None (tolerated region).
Written from the Bundesbank "Pruefzifferberechnungsmethoden" descriptions; shares no code with schwifty.
"""
from __future__ import annotations

METHODS = ("00 01 02 03 04 05 06 07 08 09 10 11 13 14 15 16 17 18 19 20 21 22 23 24 25 26 28 32 33 34 38 "
           "60 61 63 68 76 88 91 99").split()


def qs(n):
    return sum(int(c) for c in str(n))


def d(acc):
    return [int(c) for c in acc]


def r2l(acc, a, b):
    return d(acc)[a - 1:b][::-1]


def wsum(digs, w, f=lambda p: p):
    return sum(f(x * w[i % len(w)]) for i, x in enumerate(digs))


def pz00(acc, a=1, b=9):
    return (10 - wsum(r2l(acc, a, b), (2, 1), qs) % 10) % 10


def pz10(acc, w, a=1, b=9):
    return (10 - wsum(r2l(acc, a, b), w) % 10) % 10


def pz06(acc, w, a=1, b=9):
    r = wsum(r2l(acc, a, b), w) % 11
    return 0 if r in (0, 1) else 11 - r


def ok02(acc, w, a=1, b=9, p=10):
    r = wsum(r2l(acc, a, b), w) % 11
    return False if r == 1 else (0 if r == 0 else 11 - r) == int(acc[p - 1])


def remainder_info(m, acc):
    """Remainder of the main weighted sum where the method has a single one (used for non-triviality)."""
    try:
        if m in ("02", "07"):
            w = (2, 3, 4, 5, 6, 7, 8, 9, 2) if m == "02" else (2, 3, 4, 5, 6, 7, 8, 9, 10)
            return wsum(r2l(acc, 1, 9), w) % 11
        if m == "04":
            return wsum(r2l(acc, 1, 9), (2, 3, 4, 5, 6, 7, 2, 3, 4)) % 11
        if m in ("06", "99", "16"):
            return wsum(r2l(acc, 1, 9), (2, 3, 4, 5, 6, 7)) % 11
        if m in ("10", "11"):
            return wsum(r2l(acc, 1, 9), (2, 3, 4, 5, 6, 7, 8, 9, 10)) % 11
        if m == "14":
            return wsum(r2l(acc, 4, 9), (2, 3, 4, 5, 6, 7)) % 11
        if m == "23":
            return wsum(r2l(acc, 1, 6), (2, 3, 4, 5, 6, 7)) % 11
        if m == "25":
            return wsum(r2l(acc, 2, 9), (2, 3, 4, 5, 6, 7, 8, 9)) % 11
        if m == "76":
            return wsum(r2l(acc, 2, 7), (2, 3, 4, 5, 6, 7)) % 11
    except Exception:
        return None
    return None


def ref(m, acc):
    A = d(acc)
    if m == "00": return pz00(acc) == A[9]
    if m == "01": return pz10(acc, (3, 7, 1)) == A[9]
    if m == "02": return ok02(acc, (2, 3, 4, 5, 6, 7, 8, 9, 2))
    if m == "03": return pz10(acc, (2, 1)) == A[9]
    if m == "04": return ok02(acc, (2, 3, 4, 5, 6, 7, 2, 3, 4))
    if m == "05": return pz10(acc, (7, 3, 1)) == A[9]
    if m == "06": return pz06(acc, (2, 3, 4, 5, 6, 7)) == A[9]
    if m == "07": return ok02(acc, (2, 3, 4, 5, 6, 7, 8, 9, 10))
    if m == "08": return True if int(acc) < 60000 else pz00(acc) == A[9]
    if m == "09": return True
    if m == "10": return pz06(acc, (2, 3, 4, 5, 6, 7, 8, 9, 10)) == A[9]
    if m == "11":
        r = wsum(r2l(acc, 1, 9), (2, 3, 4, 5, 6, 7, 8, 9, 10)) % 11
        return (0 if r == 0 else 9 if r == 1 else 11 - r) == A[9]
    if m == "13":
        if pz00(acc, 2, 7) == A[7]: return True
        s = acc[2:] + "00"                                  # recommended second pass
        return None if acc[:2] == "00" and pz00(s, 2, 7) == int(s[7]) else False
    if m == "14": return ok02(acc, (2, 3, 4, 5, 6, 7), 4, 9)
    if m == "15": return pz06(acc, (2, 3, 4, 5), 6, 9) == A[9]
    if m == "16":
        r = wsum(r2l(acc, 1, 9), (2, 3, 4, 5, 6, 7)) % 11
        if r == 1:
            # "as 06, but with remainder 1 the account is right if digits 9 and 10 are identical": whether the
            # method-06 digit 0 remains acceptable as well is not stated unambiguously -> undecided
            return True if A[8] == A[9] else (None if A[9] == 0 else False)
        return (0 if r == 0 else 11 - r) == A[9]
    if m == "17":
        r = (sum(qs(x * y) for x, y in zip(A[1:7], (1, 2, 1, 2, 1, 2))) - 1) % 11
        return (0 if r == 0 else 10 - r) == A[7]
    if m == "18": return pz10(acc, (3, 9, 7, 1)) == A[9]
    if m == "19": return pz06(acc, (2, 3, 4, 5, 6, 7, 8, 9, 1)) == A[9]
    if m == "20": return pz06(acc, (2, 3, 4, 5, 6, 7, 8, 9, 3)) == A[9]
    if m == "21":
        s = wsum(r2l(acc, 1, 9), (2, 1), qs)
        while s >= 10: s = qs(s)
        return (10 - s) % 10 == A[9]
    if m == "22": return (10 - wsum(r2l(acc, 1, 9), (3, 1), lambda p: p % 10) % 10) % 10 == A[9]
    if m == "23":
        r = wsum(r2l(acc, 1, 6), (2, 3, 4, 5, 6, 7)) % 11
        if r == 1:
            return True if A[5] == A[6] else (None if A[6] == 0 else False)   # same ambiguity as method 16
        return (0 if r == 0 else 11 - r) == A[6]
    if m == "24":
        x = acc[:9]
        if x[0] in "3456": x = "0" + x[1:]
        elif x[0] == "9":  x = "000" + x[3:]
        x = x.lstrip("0")
        return sum((int(c) * w + w) % 11 for c, w in zip(x, (1, 2, 3) * 3)) % 10 == A[9]
    if m == "25":
        r = wsum(r2l(acc, 2, 9), (2, 3, 4, 5, 6, 7, 8, 9)) % 11
        if r == 0: return A[9] == 0
        if r == 1: return A[9] == 0 and acc[1] in "89"
        return 11 - r == A[9]
    if m == "26":
        x = acc[2:] + "00" if acc.startswith("00") else acc
        return pz06(x, (2, 3, 4, 5, 6, 7), 1, 7) == int(x[7])
    if m == "28": return pz06(acc, (2, 3, 4, 5, 6, 7, 8), 1, 7) == A[7]
    if m == "32": return pz06(acc, (2, 3, 4, 5, 6, 7), 4, 9) == A[9]
    if m == "33": return pz06(acc, (2, 3, 4, 5, 6), 5, 9) == A[9]
    if m == "34": return pz06(acc, (2, 4, 8, 5, 10, 9, 7), 1, 7) == A[7]
    if m == "38": return pz06(acc, (2, 4, 8, 5, 10, 9), 4, 9) == A[9]
    if m == "60": return pz00(acc, 3, 9) == A[9]
    if m == "61":
        digs = r2l(acc, 1, 7)
        if acc[8] == "8": digs = [A[9], A[8]] + digs
        return (10 - wsum(digs, (2, 1), qs) % 10) % 10 == A[7]
    if m == "63":
        if acc[0] != "0": return False
        if pz00(acc, 2, 7) == A[7]: return True
        x = acc[2:] + "00"                                  # sub-account omitted
        return None if acc[:3] == "000" and pz00(x, 2, 7) == int(x[7]) else False
    if m == "68":
        n = int(acc)
        if len(str(n)) < 6: return None                     # outside the published 6..10 digits
        if len(str(n)) == 10: return acc[3] == "9" and pz00(acc, 4, 9) == A[9]
        if 400000000 <= n <= 499999999: return True
        return pz00(acc) == A[9] or pz00(acc[:2] + "00" + acc[4:]) == A[9]
    if m == "76":
        def one(x):
            if x[0] not in "046789": return False
            r = wsum(r2l(x, 2, 7), (2, 3, 4, 5, 6, 7)) % 11
            return "R10" if r == 10 else r == int(x[7])
        v = one(acc)
        if v is True: return True
        first = None if (v == "R10" and A[7] == 0) else False   # remainder 10: "not usable" vs 0
        if acc[:2] == "00" and one(acc[2:] + "00") is True: return None   # sub-account omitted
        return first
    if m == "88":
        return (pz06(acc, (2, 3, 4, 5, 6, 7, 8), 3, 9) if acc[2] == "9"
                else pz06(acc, (2, 3, 4, 5, 6, 7), 4, 9)) == A[9]
    if m == "91":
        v3 = sum(x * y for x, y in zip(A[::-1], (2, 3, 4, 0, 5, 6, 7, 8, 9, 10))) % 11
        cands = [pz06(acc, (2, 3, 4, 5, 6, 7), 1, 6), pz06(acc, (7, 6, 5, 4, 3, 2), 1, 6),
                 0 if v3 in (0, 1) else 11 - v3, pz06(acc, (2, 4, 8, 5, 10, 9), 1, 6)]
        return A[6] in cands
    if m == "99":
        return True if 396000000 <= int(acc) <= 499999999 else pz06(acc, (2, 3, 4, 5, 6, 7)) == A[9]
    raise KeyError(m)
