"""O-nat: three-valued reference for the 22 national check-digit algorithms (DESIGN Appendix B).

ref(cc, bban, positions) -> True (accept) / False (reject) / None (publication ambiguous: tolerated).
Field slices come from the country table (positions), so a registry update that moves a field is followed.
"""
from __future__ import annotations

from .core import num

LISTED = ("BE", "BA", "ES", "FR", "MC", "IT", "SM", "FI", "NO", "PL", "EE", "PT", "RS", "ME", "MK", "SI", "TL",
          "MR", "TN", "CZ", "SK", "IS")
# countries that keep separately computed digits in a dedicated field (C09)
FIELD = ("BE", "BA", "ES", "FR", "MC", "IT", "SM", "FI", "NO", "PL", "EE", "PT", "RS", "ME", "MK", "SI", "TL",
         "MR", "TN")

# Fields the published algorithm of each country reads (independent of what the table currently defines): C17 checks that
# the bundled table defines every one of them, otherwise the national check silently degenerates (reads '').
NEEDS = {
    "BE": ("bank_code", "account_code", "national_checksum_digits"),
    "BA": ("bank_code", "branch_code", "account_code", "national_checksum_digits"),
    "PT": ("bank_code", "branch_code", "account_code", "national_checksum_digits"),
    "RS": ("bank_code", "account_code", "national_checksum_digits"),
    "ME": ("bank_code", "account_code", "national_checksum_digits"),
    "MK": ("bank_code", "account_code", "national_checksum_digits"),
    "SI": ("bank_code", "branch_code", "account_code", "national_checksum_digits"),
    "TL": ("bank_code", "account_code", "national_checksum_digits"),
    "MR": ("bank_code", "branch_code", "account_code", "national_checksum_digits"),
    "TN": ("bank_code", "branch_code", "account_code", "national_checksum_digits"),
    "FR": ("bank_code", "branch_code", "account_code", "national_checksum_digits"),
    "MC": ("bank_code", "branch_code", "account_code", "national_checksum_digits"),
    "ES": ("bank_code", "branch_code", "account_code", "national_checksum_digits"),
    "IT": ("bank_code", "branch_code", "account_code", "national_checksum_digits"),
    "SM": ("bank_code", "branch_code", "account_code", "national_checksum_digits"),
    "FI": ("bank_code", "account_code", "national_checksum_digits"),
    "NO": ("bank_code", "account_code", "national_checksum_digits"),
    "PL": ("bank_code", "branch_code", "national_checksum_digits"),
    "EE": ("branch_code", "account_code", "national_checksum_digits"),
    "CZ": ("branch_code", "account_code"),
    "SK": ("branch_code", "account_code"),
    "IS": ("account_holder_id",),
}


def missing_fields(cc, pos):
    """Fields the published algorithm needs but the table does not define (non-empty range)."""
    return [f for f in NEEDS.get(cc, ()) if not pos.get(f) or pos[f][1] <= pos[f][0]]

FR = dict(zip("ABCDEFGHIJKLMNOPQRSTUVWXYZ", "12345678912345678923456789"))
FR.update({c: c for c in "0123456789"})
IT_ODD = dict(zip("0123456789", (1, 0, 5, 7, 9, 13, 15, 17, 19, 21)))
IT_ODD.update(zip("ABCDEFGHIJKLMNOPQRSTUVWXYZ",
                  (1, 0, 5, 7, 9, 13, 15, 17, 19, 21, 2, 4, 18, 20, 11, 3, 6, 8, 12, 14, 16, 10, 22, 25, 24, 23)))


def luhn(s):
    t = 0
    for i, c in enumerate(reversed(s)):
        v = int(c) * (2 if i % 2 == 0 else 1)
        t += v // 10 + v % 10
    return (10 - t % 10) % 10


def ws(s, w):
    return sum(int(c) * k for c, k in zip(s, w))


def _m98(body, cd):
    return f"{98 - num(body) * 100 % 97:02d}" == cd


def _m97(body, cd):
    return f"{97 - num(body) * 100 % 97:02d}" == cd


def _field(b, pos, name):
    rng = pos.get(name)
    if not rng:
        return ""
    return b[rng[0]:rng[1]]


def check_field(pos):
    """(start, end) of the national check field, or None."""
    rng = pos.get("national_checksum_digits")
    return tuple(rng) if rng else None


def ref(cc, b, pos):
    f = lambda name: _field(b, pos, name)  # noqa: E731
    cd = f("national_checksum_digits")
    bank, branch, acct = f("bank_code"), f("branch_code"), f("account_code")
    if cc == "BE":
        return f"{int(bank + acct) % 97 or 97:02d}" == cd
    if cc in ("BA", "PT", "RS", "ME", "MK", "SI", "TL"):
        return _m98(bank + branch + acct, cd)
    if cc in ("MR", "TN"):
        return _m97(bank + branch + acct, cd)
    if cc in ("FR", "MC"):
        return f"{97 - int(''.join(FR[c] for c in bank + branch + acct)) * 100 % 97:02d}" == cd
    if cc == "ES":
        w = (1, 2, 4, 8, 5, 10, 9, 7, 3, 6)

        def g(s, ww):
            v = 11 - ws(s, ww) % 11
            return {10: 1, 11: 0}.get(v, v)
        return f"{g(bank + branch, w[2:])}{g(acct, w)}" == cd
    if cc in ("IT", "SM"):
        t = sum(IT_ODD[c] if i % 2 == 0 else (int(c) if c.isdigit() else ord(c) - 65)
                for i, c in enumerate(bank + branch + acct))
        return "ABCDEFGHIJKLMNOPQRSTUVWXYZ"[t % 26] == cd
    if cc == "FI":
        return str(luhn(bank + acct)) == cd
    if cc == "NO":
        if acct[:2] == "00":
            return None
        s = ws(bank + acct, (5, 4, 3, 2, 7, 6, 5, 4, 3, 2)) % 11
        return False if s == 1 else (0 if s == 0 else 11 - s) == int(cd)
    if cc == "PL":
        return (10 - ws(bank + branch, (3, 9, 7, 1, 3, 9, 7)) % 10) % 10 == int(cd)
    if cc == "EE":
        return (10 - ws((branch + acct)[::-1], (7, 3, 1) * 5) % 10) % 10 == int(cd)
    if cc in ("CZ", "SK"):
        w = (6, 3, 7, 9, 10, 5, 8, 4, 2, 1)
        return ws(branch, w[4:]) % 11 == 0 and ws(acct, w) % 11 == 0
    if cc == "IS":
        k = f("account_holder_id")
        s = ws(k[:8], (3, 2, 7, 6, 5, 4, 3, 2)) % 11
        return False if s == 1 else (0 if s == 0 else 11 - s) == int(k[8])
    return True
