"""O-bic: ISO 9362 structure with an ISO 3166-1 alpha-2 country (embedded list, no pycountry import)."""
from __future__ import annotations

from .core import ALNUM, ASCII_UPPER, norm

ISO3166 = frozenset("""
AD AE AF AG AI AL AM AO AQ AR AS AT AU AW AX AZ BA BB BD BE BF BG BH BI BJ BL BM BN BO BQ BR BS BT BV BW BY BZ CA CC CD
CF CG CH CI CK CL CM CN CO CR CU CV CW CX CY CZ DE DJ DK DM DO DZ EC EE EG EH ER ES ET FI FJ FK FM FO FR GA GB GD GE GF
GG GH GI GL GM GN GP GQ GR GS GT GU GW GY HK HM HN HR HT HU ID IE IL IM IN IO IQ IR IS IT JE JM JO JP KE KG KH KI KM KN
KP KR KW KY KZ LA LB LC LI LK LR LS LT LU LV LY MA MC MD ME MF MG MH MK ML MM MN MO MP MQ MR MS MT MU MV MW MX MY MZ NA
NC NE NF NG NI NL NO NP NR NU NZ OM PA PE PF PG PH PK PL PM PN PR PS PT PW PY QA RE RO RS RU RW SA SB SC SD SE SG SH SI
SJ SK SL SM SN SO SR SS ST SV SX SY SZ TC TD TF TG TH TJ TK TL TM TN TO TR TT TV TW TZ UA UG UM US UY UZ VA VC VE VG VI
VN VU WF WS YE YT ZA ZM ZW
""".split())
assert len(ISO3166) == 249

_AN = frozenset(ALNUM)
_UP = frozenset(ASCII_UPPER)


def accept_norm(s: str, strict: bool = False) -> bool:
    if len(s) not in (8, 11):
        return False
    head = _UP if strict else _AN
    if not all(c in head for c in s[:4]):
        return False
    if s[4:6] not in ISO3166:
        return False
    return all(c in _AN for c in s[6:])


def accept(text: str, strict: bool = False) -> bool:
    return accept_norm(norm(text), strict)


def defects(text: str, strict: bool = False) -> set:
    s = norm(text)
    out = set()
    if len(s) not in (8, 11):
        out.add("length")
    head = _UP if strict else _AN
    if (not all(c in head for c in s[:4]) or not all(c in _UP for c in s[4:6]) or len(s[4:6]) < 2
            or not all(c in _AN for c in s[6:])):
        out.add("structure")
    if s[4:6] not in ISO3166:
        out.add("country")
    return out
