"""O-reg: reference composition of the bank registry files (read directly from disk)."""
from __future__ import annotations

import json
import os

from .core import bank_registry_dir


def expand_v2(doc):
    src, dst = doc["expand_from"], doc["expand_into"]
    out = []
    for entry in doc["entries"]:
        rest = {k: v for k, v in entry.items() if k != src}
        rest.setdefault("primary", False)
        for value in entry[src]:
            e = dict(rest)
            e[dst] = value
            out.append(e)
    return out


def load_banks(directory: str | None = None) -> list:
    directory = directory or bank_registry_dir()
    banks: list = []
    for name in sorted(n for n in os.listdir(directory) if n.endswith(".json")):
        with open(os.path.join(directory, name), encoding="utf-8") as fp:
            doc = json.load(fp)
        stem = name[:-len(".json")]
        banks.extend(expand_v2(doc) if stem.endswith("v2") else doc)
    return banks


def index_by_code(banks):
    idx: dict = {}
    for e in banks:
        cc, code = e.get("country_code"), e.get("bank_code")
        if cc and code:
            idx.setdefault((cc, code), []).append(e)
    return idx


def index_by_bic(banks):
    idx: dict = {}
    for e in banks:
        if e.get("bic"):
            idx.setdefault(e["bic"], []).append(e)
    return idx
