"""Combined national verdict (O-nat for the 22 listed countries, O-de through the bank registry for Germany)."""
from __future__ import annotations

from . import de as ode
from . import nat as onat
from . import reg as oreg


class National:
    def __init__(self, iban_oracle, banks=None, implemented=None):
        self.o = iban_oracle
        self.banks = banks if banks is not None else oreg.load_banks()
        self.by_code = oreg.index_by_code(self.banks)
        # methods the tree implements (configuration discovery, not oracle logic); default: those with a reference
        self.implemented = set(implemented) if implemented is not None else set(ode.METHODS)

    def de_method(self, bank_code):
        entries = self.by_code.get(("DE", bank_code))
        if not entries:
            return None
        return entries[0].get("checksum_algo")

    def verdict(self, cc, bban):
        """True accept / False reject / None tolerated, for a structure-conforming BBAN."""
        if cc == "DE":
            pos = self.o.positions("DE")
            a, b = pos["bank_code"]
            m = self.de_method(bban[a:b])
            if m is None or m not in self.implemented:
                return True
            if m not in ode.METHODS:
                return None
            a, b = pos["account_code"]
            return ode.ref(m, bban[a:b])
        if cc in onat.LISTED:
            return onat.ref(cc, bban, self.o.positions(cc))
        return True

    def norway_uncomputable(self, bban):
        pos = self.o.positions("NO")
        body = bban[pos["bank_code"][0]:pos["bank_code"][1]] + bban[pos["account_code"][0]:pos["account_code"][1]]
        return onat.ws(body, (5, 4, 3, 2, 7, 6, 5, 4, 3, 2)) % 11 == 1
