"""Reference model for IBAN acceptance (DESIGN section 4: O-norm, O-table, O-struct, O-mod97, O-iban).

Pure stdlib.  Must never import schwifty: the point is that it shares no code with it.
The bundled JSON files are read directly from disk.
"""
from __future__ import annotations

import json
import os
import re

ASCII_DIGITS = "0123456789"
ASCII_UPPER = "ABCDEFGHIJKLMNOPQRSTUVWXYZ"
ALNUM = ASCII_DIGITS + ASCII_UPPER
_ALNUM_SET = frozenset(ALNUM)
_DIGIT_SET = frozenset(ASCII_DIGITS)
_UPPER_SET = frozenset(ASCII_UPPER)

COMPONENTS = (
    "account_id",
    "account_type",
    "account_code",
    "account_holder_id",
    "currency_code",
    "bank_code",
    "branch_code",
    "national_checksum_digits",
)


def norm(text: str) -> str:
    """Remove whitespace (str.isspace), upper-case."""
    return "".join(c for c in text if not c.isspace()).upper()


def merge(left, right):
    """O-merge: recursive right-biased merge; dict+dict merge, anything else -> right."""
    if isinstance(left, dict) and isinstance(right, dict):
        out = dict(left)
        for k, v in right.items():
            out[k] = merge(left[k], v) if k in left else v
        return out
    return right


def repo_root() -> str:
    return os.environ.get("VERIF_REPO", "/repo")


def iban_registry_dir(root: str | None = None) -> str:
    return os.path.join(root or repo_root(), "schwifty", "iban_registry")


def bank_registry_dir(root: str | None = None) -> str:
    return os.path.join(root or repo_root(), "schwifty", "bank_registry")


def load_table(directory: str | None = None) -> dict:
    """O-table: right-biased deep merge of *.json in file-name (code point) order."""
    directory = directory or iban_registry_dir()
    table: dict | None = None
    for name in sorted(n for n in os.listdir(directory) if n.endswith(".json")):
        with open(os.path.join(directory, name), encoding="utf-8") as fp:
            chunk = json.load(fp)
        table = chunk if table is None else merge(table, chunk)
    if table is None:
        raise RuntimeError("no iban registry files")
    return table


_TOKEN = re.compile(r"(\d+)(!?)([nace])")
_CLASS = {"n": _DIGIT_SET, "a": _UPPER_SET, "c": _ALNUM_SET, "e": frozenset(" ")}


def parse_structure(spec: str):
    """O-struct: list of (class letter, min, max). Raises ValueError if the string has other content."""
    out, pos = [], 0
    for m in _TOKEN.finditer(spec):
        if m.start() != pos:
            raise ValueError(f"unparsable structure {spec!r}")
        n = int(m.group(1))
        out.append((m.group(3), n if m.group(2) else 1, n))
        pos = m.end()
    if pos != len(spec):
        raise ValueError(f"unparsable structure {spec!r}")
    return out


def structure_fixed_classes(spec: str):
    """Per-position class letters if every token is fixed width, else None."""
    toks = parse_structure(spec)
    if any(lo != hi for _, lo, hi in toks):
        return None
    return "".join(cls * hi for cls, lo, hi in toks)


def matches_structure(toks, s: str) -> bool:
    """Own matcher with backtracking for variable-width tokens (ASCII classes only)."""
    def rec(ti: int, si: int) -> bool:
        if ti == len(toks):
            return si == len(s)
        cls, lo, hi = toks[ti]
        allowed = _CLASS[cls]
        k = 0
        while k < hi and si + k < len(s) and s[si + k] in allowed:
            k += 1
        for take in range(k, lo - 1, -1):
            if rec(ti + 1, si + take):
                return True
        return False
    return rec(0, 0)


def num(s: str) -> int:
    """mod-97 letter expansion A=10..Z=35 (s must be ASCII alnum upper)."""
    return int("".join(str(ALNUM.index(c)) for c in s))


def mod97(s: str) -> int:
    """num(s) mod 97, digit by digit (texts of any length: no big integers, no interpreter limit on digit strings)."""
    r = 0
    for c in s:
        v = ALNUM.index(c)
        r = (r * 10 + v) % 97 if v < 10 else (r * 100 + v) % 97
    return r


def canonical_digits(cc: str, bban: str) -> str:
    s = bban + cc + "00"
    return f"{98 - (num(s) % 97 if len(s) < 2000 else mod97(s)):02d}"


class IbanOracle:
    def __init__(self, table: dict | None = None):
        self.table = table if table is not None else load_table()
        self.toks = {}
        self.fixed = {}
        for cc, spec in self.table.items():
            self.toks[cc] = parse_structure(spec["bban_spec"])
            self.fixed[cc] = structure_fixed_classes(spec["bban_spec"])

    def countries(self):
        return sorted(self.table)

    def bban_length(self, cc):
        return self.table[cc]["bban_length"]

    def positions(self, cc):
        return self.table[cc].get("positions", {})

    def accept(self, text: str) -> bool:
        return self.accept_norm(norm(text))

    def accept_norm(self, s: str) -> bool:
        cc = s[:2]
        spec = self.table.get(cc)
        if spec is None or len(cc) != 2:
            return False
        dd = s[2:4]
        if len(dd) != 2 or dd[0] not in _DIGIT_SET or dd[1] not in _DIGIT_SET:
            return False
        bban = s[4:]
        if len(bban) != spec["bban_length"]:
            return False
        if not matches_structure(self.toks[cc], bban):
            return False
        if not all(c in _ALNUM_SET for c in s):
            return False
        return dd == canonical_digits(cc, bban)

    def defects(self, text: str) -> set:
        """Defect classes present in a text (DESIGN O-iban.defects); national defects are added by callers."""
        s = norm(text)
        out = set()
        head_ok = (
            len(s) >= 4
            and s[0] in _UPPER_SET and s[1] in _UPPER_SET
            and s[2] in _DIGIT_SET and s[3] in _DIGIT_SET
        )
        all_alnum = all(c in _ALNUM_SET for c in s)
        if not all_alnum or not head_ok:
            out.add("chars")
        cc = s[:2]
        spec = self.table.get(cc) if len(cc) == 2 else None
        if spec is None:
            out.add("country")
            if len(s) < 15 or len(s) > 34:
                out.add("length")
        else:
            if len(s) != spec["bban_length"] + 4:
                out.add("length")
            if not matches_structure(self.toks[cc], s[4:]):
                out.add("format")
        if all_alnum and len(s) >= 4 and s[2:4] != canonical_digits(cc, s[4:]):
            # the mod-97 check is defined for any alphanumeric text; it fails iff digits are not canonical
            out.add("checksum")
        return out

    def component(self, cc: str, bban: str, name: str) -> str:
        rng = self.positions(cc).get(name)
        if not rng:
            return ""
        a, b = rng
        return bban[a:b]
