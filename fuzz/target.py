#!/venv/bin/python
"""atheris (libFuzzer) target with the oracle inside: structure-aware decoding of the fuzzer's bytes into IBAN / BIC texts.

Usage: target.py <iban|bic> <out.json> [libFuzzer args...]     (run through vlib.engines.fuzz, which sets PYTHONPATH)
Raw bytes give no coverage gradient through the C regex engine, so bytes are decoded into (country, class-conforming BBAN,
reference check digits, <= 3 edits); coverage feedback still flows through the Python-level national algorithms.
The relation functions are the same ones the property modules use; the first failing input is written as a replay JSON.
"""
import json
import sys

import atheris

MODE, _, WHICH = sys.argv[1].partition("-")     # e.g. iban-c01, iban-c05, bic-c04, bic-c05
OUT = sys.argv[2]

with atheris.instrument_imports(include=["schwifty"]):
    import schwifty  # noqa: F401

from vlib import gens  # noqa: E402
from vlib.props import c01, c04, c05  # noqa: E402
from vlib.props._shared import gen, oracle  # noqa: E402
from vlib.runner import Rec  # noqa: E402

O = oracle()
G = gen()
CCS = O.countries()
ALPHA = gens.alphabet_quick()
STATS = {"runs": 0, "accepted": 0, "nonascii": 0, "edited": 0}


class ByteRandom:
    """random.Random-like facade over a FuzzedDataProvider (only what Gen needs)."""
    def __init__(self, fdp):
        self.fdp = fdp

    def choice(self, seq):
        return seq[self.fdp.ConsumeIntInRange(0, len(seq) - 1)]

    def randrange(self, a, b=None):
        if b is None:
            a, b = 0, a
        return self.fdp.ConsumeIntInRange(a, b - 1)

    def random(self):
        return self.fdp.ConsumeIntInRange(0, 1 << 16) / float(1 << 16)


def edit(fdp, t):
    n = fdp.ConsumeIntInRange(0, 3)
    for _ in range(n):
        if not t:
            break
        op = fdp.ConsumeIntInRange(0, 5)
        i = fdp.ConsumeIntInRange(0, len(t) - 1)
        ch = ALPHA[fdp.ConsumeIntInRange(0, len(ALPHA) - 1)]
        if op == 0:
            t = t[:i] + ch + t[i + 1:]
        elif op == 1:
            t = t[:i] + t[i + 1:]
        elif op == 2:
            t = t[:i] + ch + t[i:]
        elif op == 3 and i + 1 < len(t):
            t = t[:i] + t[i + 1] + t[i] + t[i + 2:]
        elif op == 4:
            t = t[:i] + t[i].swapcase() + t[i + 1:]
        else:
            t = t[:i] + gens.WHITESPACE[fdp.ConsumeIntInRange(0, len(gens.WHITESPACE) - 1)] + t[i:]
    return t, n


def fail(rec, data):
    key, case = next(iter(rec.fails.items()))
    with open(OUT, "w") as fp:
        json.dump({"failure": {k: v for k, v in case.items() if k != "_size"}, "stats": STATS, "input_hex": data.hex()}, fp)
    raise RuntimeError(f"property violated: {key}")


def one_iban(data):
    fdp = atheris.FuzzedDataProvider(data)
    r = ByteRandom(fdp)
    if fdp.ConsumeIntInRange(0, 9) == 0:
        t = fdp.ConsumeUnicode(40)
        n = 1
    else:
        cc = CCS[fdp.ConsumeIntInRange(0, len(CCS) - 1)]
        natv = fdp.ConsumeBool()
        b = (G.natvalid_bban(cc, r, tries=3) if natv else None) or G.bban(cc, r)
        t, n = edit(fdp, G.iban_of(cc, b))
    flag = fdp.ConsumeBool()
    rec = Rec()
    want = O.accept(t)
    if WHICH in ("", "c01"):
        c01.check_text(rec, t, "atheris", full=True)
    if WHICH in ("", "c05"):
        c05.check_iban(rec, t, flag, "atheris")
    STATS["runs"] += 1
    STATS["accepted"] += bool(want)
    STATS["nonascii"] += not t.isascii()
    STATS["edited"] += n > 0
    if rec.fails:
        fail(rec, data)


def one_bic(data):
    fdp = atheris.FuzzedDataProvider(data)
    if fdp.ConsumeIntInRange(0, 9) == 0:
        t = fdp.ConsumeUnicode(14)
        n = 1
    else:
        iso = c04.obic.ISO3166
        isol = sorted(iso)
        n11 = fdp.ConsumeBool()
        body = "".join(c04.ALNUM[fdp.ConsumeIntInRange(0, 35)] for _ in range(9 if n11 else 6))
        t = body[:4] + isol[fdp.ConsumeIntInRange(0, len(isol) - 1)] + body[4:]
        t, n = edit(fdp, t)
    strict = fdp.ConsumeBool()
    rec = Rec()
    want = c04.obic.accept(t, strict)
    if WHICH in ("", "c04"):
        c04.check_bic(rec, t, strict, "atheris")
    if WHICH in ("", "c05"):
        c05.check_bic(rec, t, strict, "atheris")
    STATS["runs"] += 1
    STATS["accepted"] += bool(want)
    STATS["nonascii"] += not t.isascii()
    STATS["edited"] += n > 0
    if rec.fails:
        fail(rec, data)


def main():
    import atexit  # noqa: F401  (atexit does not run under libFuzzer: stats are flushed periodically instead)
    target = one_iban if MODE == "iban" else one_bic

    def wrapped(data):
        target(data)
        if STATS["runs"] % 2000 == 0:
            with open(OUT, "w") as fp:
                json.dump({"failure": None, "stats": STATS}, fp)
    c05.national()
    atheris.Setup([sys.argv[0]] + sys.argv[3:], wrapped)
    atheris.Fuzz()


if __name__ == "__main__":
    main()
