#!/bin/sh
# Offline setup: third-party verification libraries next to (not inside) the repo's venv.
set -e
cd "$(dirname "$0")"
if [ ! -d .deps/hypothesis ] || [ ! -d .deps/atheris ]; then
  /venv/bin/pip install --quiet --no-index --find-links /opt/veriftools/wheels --target .deps \
      hypothesis atheris crosshair-tool jsonschema
fi
PYTHONPATH=.deps /venv/bin/python -c "import hypothesis, sys; print('hypothesis', hypothesis.__version__, 'python', sys.version.split()[0])"
