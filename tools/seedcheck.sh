#!/bin/sh
# tools/seedcheck.sh <patch.diff> <demo.py|-> <tier> <Cxx>...
# Applies a seeded change to a scratch worktree of /repo HEAD (outside /repo and /verif), confirms that the existing tests
# still pass and that the demonstration fails with / passes without the change, then runs the given checks against it.
set -u
patch=$(readlink -f "$1"); demo=$2; tier=$3; shift 3
[ "$demo" != "-" ] && demo=$(readlink -f "$demo")
V=$(cd "$(dirname "$0")/.." && pwd)
wt=$(mktemp -d /tmp/seedwt.XXXXXX); rmdir "$wt"
git -C /repo worktree add -q --detach "$wt" HEAD || exit 2
cleanup() { git -C /repo worktree remove --force "$wt" 2>/dev/null; rm -rf "$wt"; }
trap cleanup EXIT
if [ "$demo" != "-" ]; then
  ( cd "$wt" && SCHWIFTY_SRC="$wt" PYTHONPATH="$wt" timeout 300 /venv/bin/python "$demo" >/dev/null 2>&1 ); echo "demo without change: exit $? (want 0)"
fi
git -C "$wt" apply "$patch" || { echo "PATCH DOES NOT APPLY"; exit 2; }
( cd "$wt" && PYTHONPATH="$wt" /venv/bin/python -m pytest -q -p no:cacheprovider 2>&1 | tail -1 | sed 's/^/tests with change: /' )
if [ "$demo" != "-" ]; then
  ( cd "$wt" && SCHWIFTY_SRC="$wt" PYTHONPATH="$wt" timeout 300 /venv/bin/python "$demo" >/dev/null 2>&1 ); echo "demo with change: exit $? (want non-zero)"
fi
for p in "$@"; do
  out=$(cd "$V" && VERIF_REPO="$wt" ./check "$p" "$tier" 2>&1); r=$?
  echo "$out" | grep -E "^(VIOLATION|HARNESS-ERROR)" | head -3
  echo "$out" | grep -E "^  key=" | head -3
  echo "$out" | tail -1 | sed "s/^/[rc=$r] /"
  rp=$(echo "$out" | grep -m1 "^VIOLATION" | sed 's/.*replay=//')
  if [ -n "$rp" ]; then
    ( cd "$V" && VERIF_REPO="$wt" ./check "$p" --replay "$rp" >/dev/null 2>&1 ); echo "replay on changed tree: exit $? (want 1)"
    ( cd "$V" && ./check "$p" --replay "$rp" >/dev/null 2>&1 ); echo "replay on /repo: exit $? (want 0)"
  fi
done
