#!/usr/bin/env python3
"""Rewrite non-ASCII characters in harness sources as \\uXXXX escapes (keeps sources robust to editors/encodings)."""
import sys
for p in sys.argv[1:]:
    s = open(p, encoding="utf-8").read()
    if s.isascii():
        continue
    out = "".join(ch if ord(ch) < 128 else ("\\u%04x" % ord(ch) if ord(ch) < 0x10000 else "\\U%08x" % ord(ch)) for ch in s)
    open(p, "w").write(out)
    print("asciified", p)
