#!/usr/bin/env python3
"""tools/keep_seed.py <Cxx> <n> [extra checks...]  - confirm a sub-agent's change and keep it under seeded/<Cxx>-<n>/.

Runs tools/seedcheck.sh (scratch worktree: tests pass, demo fails with / passes without the change), runs the property's
own check (and any extra ones) at the quick tier against the changed tree, and writes patch.diff, demo.py, meta.json.
"""
import json
import os
import re
import shutil
import subprocess
import sys

V = os.path.dirname(os.path.dirname(os.path.abspath(__file__)))
prop, n = sys.argv[1], sys.argv[2]
extra = sys.argv[3:]
tier = os.environ.get("SEED_TIER", "quick")
src = f"/tmp/mut/{os.environ.get('SEED_PREFIX', 'out_')}{prop}"
keep_as = os.environ.get("SEED_AS", n)
if os.environ.get("SEED_DIR"):
    src = os.environ["SEED_DIR"]
patch, demo = f"{src}/patch{n}.diff", f"{src}/demo{n}.py"
checks = [prop] + extra
out = subprocess.run([f"{V}/tools/seedcheck.sh", patch, demo, tier, *checks], capture_output=True, text=True).stdout
print(out)
ok_tests = "362 passed" in out
ok_demo = "demo without change: exit 0" in out and re.search(r"demo with change: exit (?!0 )\d+", out) is not None
detected = re.findall(r"\[rc=1\] (C\d+)", out)
missed = re.findall(r"\[rc=0\] (C\d+)", out)
harness = re.findall(r"\[rc=2\] (C\d+)", out)
keys = re.findall(r"^  key=(\S+)", out, re.M)
notes = ""
if os.path.exists(f"{src}/notes.md"):
    notes = open(f"{src}/notes.md").read()
if not (ok_tests and ok_demo):
    print(f"NOT CONFIRMED: tests={ok_tests} demo={ok_demo}")
    sys.exit(1)
d = f"{V}/seeded/{prop}-{keep_as}"
os.makedirs(d, exist_ok=True)
shutil.copy(patch, f"{d}/patch.diff")
shutil.copy(demo, f"{d}/demo.py")
m = re.search(rf"(?ims)^#+[^\n]*(change|patch)\s*{n}\b.*?(?=^#+[^\n]*(change|patch)\s*{int(n) + 1}\b|\Z)", notes)
meta = {
    "breaks_property": prop,
    "source": "independent sub-agent given only the property text and a scratch worktree",
    "needs_to_manifest": (m.group(0) if m else notes)[:2500],
    "confirmed": {"existing_tests_with_change": "362 passed (2 pydantic tests fail in the baseline too)",
                  "demo_without_change": "exit 0", "demo_with_change": "non-zero"},
    "ran": f"tools/seedcheck.sh patch.diff demo.py {tier} {' '.join(checks)}",
    "detected_by": detected, "not_detected_by": missed, "harness_error": harness, "failure_keys": keys[:6],
}
json.dump(meta, open(f"{d}/meta.json", "w"), indent=1)
print("kept", d, "detected_by", detected, "missed", missed, "harness", harness)
