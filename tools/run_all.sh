#!/bin/sh
# tools/run_all.sh <tier> <seed>...   - runs every registered check; prints one line per check and all VIOLATION/HARNESS lines
cd "$(dirname "$0")/.." || exit 2
[ -d .deps/hypothesis ] || ./setup.sh >/dev/null
tier=$1; shift
rc=0
for seed in "$@"; do
  for p in C01 C02 C03 C04 C05 C06 C07 C08 C09 C10 C11 C12 C13 C14 C15 C16 C17 C18; do
    out=$(VERIF_SEED=$seed ./check $p $tier 2>&1); r=$?
    echo "$out" | grep -E "^(VIOLATION|HARNESS-ERROR|KNOWN-FINDING|  key=)" 
    echo "$out" | tail -1 | sed "s/^/[rc=$r] /"
    [ $r -ne 0 ] && rc=1
  done
done
exit $rc
