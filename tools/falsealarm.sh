#!/bin/sh
# tools/falsealarm.sh <patch.diff> [Cxx ...]  - a behaviour-preserving change must keep every check quiet (rc 0)
patch=$(readlink -f "$1"); shift
V=$(cd "$(dirname "$0")/.." && pwd)
checks=${@:-C01 C02 C03 C04 C05 C06 C07 C08 C09 C10 C11 C12 C13 C14 C15 C16 C17 C18}
wt=$(mktemp -d /tmp/seedwt.XXXXXX); rmdir "$wt"
git -C /repo worktree add -q --detach "$wt" HEAD || exit 2
trap 'git -C /repo worktree remove --force "$wt" 2>/dev/null; rm -rf "$wt"' EXIT
git -C "$wt" apply "$patch" || { echo "PATCH DOES NOT APPLY"; exit 2; }
( cd "$wt" && PYTHONPATH="$wt" /venv/bin/python -m pytest -q -p no:cacheprovider 2>&1 | tail -1 | sed 's/^/tests with change: /' )
for p in $checks; do
  out=$(cd "$V" && VERIF_REPO="$wt" ./check "$p" quick 2>&1); r=$?
  if [ $r -ne 0 ]; then
    echo "$out" | grep -E "^(VIOLATION|HARNESS-ERROR)" | head -3 | cut -c1-300
    echo "$out" | grep -E "^  (key|input|expected)=" | head -6 | cut -c1-300
  fi
  echo "$out" | tail -1 | sed "s/^/[rc=$r] /" | cut -c1-200
done
