#!/bin/sh
# tools/run_some.sh <tier> <seed> <Cxx>...   - like run_all.sh for a subset of checks
cd "$(dirname "$0")/.." || exit 2
[ -d .deps/hypothesis ] || ./setup.sh >/dev/null
tier=$1; seed=$2; shift 2
rc=0
for p in "$@"; do
  out=$(VERIF_SEED=$seed ./check $p $tier 2>&1); r=$?
  echo "$out" | grep -E "^(VIOLATION|HARNESS-ERROR|KNOWN-FINDING|  key=)"
  echo "$out" | tail -1 | sed "s/^/[rc=$r] /"
  [ $r -ne 0 ] && rc=1
done
exit $rc
