#!/usr/bin/env python3
"""Regenerates MANIFEST.json from the table below (so that it is always schema-valid and in step with the checks)."""
import json
import os

HERE = os.path.dirname(os.path.dirname(os.path.abspath(__file__)))

CHECKS = {
    "C01": dict(
        technique="generated-input search (exhaustive single-fault neighbourhoods + Hypothesis text) against an "
                  "independent ISO 13616 reference model",
        text="Differential against a reference model that shares no code with schwifty: complete single-replacement "
             "neighbourhood over a 258+ character alphabet, all lengths 0..40, all 100 check-digit pairs, all two-character "
             "prefixes for valid IBANs of every bundled country, plus Hypothesis-generated Unicode and near-valid text. "
             "Exploration, not proof: exhaustive only inside the named neighbourhoods of sampled bases.",
        note="Trusted: the reference model in vlib/oracles/core.py (self-tested against the repository's own literals); "
             "normalisation read as str.isspace removal + str.upper.",
        design="7/C01"),
}

NOT_YET = "check not built yet in this round (planned in DESIGN.md section 7)"


def main():
    props = [json.loads(l)["id"] for l in open(os.path.join(HERE, "properties.jsonl"))]
    checks = []
    for pid in props:
        c = CHECKS.get(pid)
        if not c:
            continue
        checks.append({
            "property_id": pid,
            "quick_cmd": f"./check {pid} quick",
            "thorough_cmd": f"./check {pid} thorough",
            "evidence_file": f"evidence/{pid}.json",
            "replay_cmd_template": f"./check {pid} --replay {{path}}",
            "engine": c.get("engine", "vlib"),
            "level_claimed": {"category": "exploration", "text": c["text"], "design_ref": c["design"]},
            "level_note": c["note"],
            "technique": c["technique"],
        })
    manifest = {
        "version": 1,
        "setup_cmd": "./setup.sh",
        "hooks": {
            "guard": "SCHWIFTY_VERIF",
            "enable": "no source hooks exist: schedules are owned through sys.settrace, histories through os.fork, "
                      "registries through package copies; checks import /repo's working tree via PYTHONPATH",
            "baseline_off_cmd": "cd /repo && /venv/bin/python -m pytest -ra -q -p no:cacheprovider --timeout=900 "
                                "--continue-on-collection-errors",
            "source_commits": [],
            "add_only": True,
        },
        "engines": [
            {"name": "vlib", "path": "vlib/", "serves_properties": [c["property_id"] for c in checks],
             "kind_free_text": "Python harness: reference oracles, constructive generators, exhaustive neighbourhood "
                               "enumeration over a 16-process pool, Hypothesis strategies/state machines, deterministic "
                               "thread scheduler, fork zygote, package copies"},
        ],
        "checks": checks,
        "not_applicable": [{"property_id": p, "reason": NOT_YET} for p in props if p not in CHECKS],
        "notes": "All checks: exit 0 held / 1 VIOLATION / 2 harness error. VERIF_SEED seeds every random choice. "
                 "VERIF_REPO (default /repo) selects the tree under test.",
    }
    with open(os.path.join(HERE, "MANIFEST.json"), "w") as fp:
        json.dump(manifest, fp, indent=1)
        fp.write("\n")


if __name__ == "__main__":
    main()
