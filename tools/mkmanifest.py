#!/usr/bin/env python3
"""Regenerates MANIFEST.json from the table below (so that it is always schema-valid and in step with the checks)."""
import json
import os

HERE = os.path.dirname(os.path.dirname(os.path.abspath(__file__)))

CHECKS = {
    "C01": dict(
        technique="generated-input search (exhaustive single-fault neighbourhoods + Hypothesis text) against an "
                  "independent ISO 13616 reference model",
        text="Differential against a reference model that shares no code with schwifty: complete single-replacement "
             "neighbourhood over a 258+ character alphabet, all lengths 0..40, all 100 check-digit pairs, all two-character "
             "prefixes for valid IBANs of every bundled country, extreme whitespace (every gap, up to 70,000 padding characters), a token dictionary harvested from the tree, str-subclass / library-object arguments, self-similar IBANs, plus Hypothesis-generated Unicode and near-valid text; atheris campaign in the thorough tier. "
             "Exploration, not proof: exhaustive only inside the named neighbourhoods of sampled bases.",
        note="Trusted: the reference model in vlib/oracles/core.py (self-tested against the repository's own literals); "
             "normalisation read as str.isspace removal + str.upper.",
        design="7/C01"),
    "C02": dict(
        technique="generated BBANs x exhaustive enumeration of all 100 check-digit pairs against an own mod 97-10 reference",
        text="For generated structure-conforming BBANs of every bundled country (incl. BBANs solved so that the congruent "
             "aliases 00/01/99 exist - from random bases and from letters-only / digits-only / all-maximum bases) from_bban is compared with an independent mod 97-10 computation and all 100 pairs are "
             "enumerated: exactly the canonical one may be accepted. Exhaustive in the pair dimension, sampled in BBANs.",
        note="Trusted: own mod 97-10 in vlib/oracles/core.py; BBAN sample is random per VERIF_SEED.",
        design="7/C02"),
    "C03": dict(
        technique="exhaustive enumeration of single same-kind substitutions and adjacent transpositions of generated valid IBANs",
        text="Every same-kind replacement at every position >= 2 and every adjacent same-kind transposition of generated "
             "valid IBANs of every country must be rejected; the reference model cross-checks that each mutant is indeed "
             "invalid. Exhaustive per base, bases sampled.",
        note="Trusted: reference model; mod 97 arithmetic guarantees every such mutant is invalid, the oracle re-checks it.",
        design="7/C03"),
    "C04": dict(
        technique="generated-input search (exhaustive position x alphabet, all lengths, all 676 country codes, Hypothesis text) "
                  "against an own ISO 9362 reference",
        text="Differential against an own ISO 9362 matcher with an embedded ISO 3166-1 list, both compliance modes: every "
             "position x every alphabet character of 8/11-character bases, every length 0..14, all 676 country codes, every "
             "registry BIC, extreme whitespace, token dictionary, argument forms, a copy of the package whose registry lists malformed BICs "
             "(acceptance is a function of the text alone), Hypothesis near-valid and arbitrary Unicode text; atheris in thorough.",
        note="Trusted: embedded ISO 3166-1 list (249 codes) and the reference matcher in vlib/oracles/bic.py.",
        design="7/C04"),
    "C05": dict(
        technique="generated multi-defect inputs (constructive defect injection, exhaustive single replacements, Hypothesis) "
                  "against a reference defect classifier",
        text="For IBAN and BIC texts (with/without national validation, strict mode) the harness checks totality (only the "
             "library's exception family escapes, is_valid never raises), agreement of constructor/validate/is_valid, the "
             "verdict against the reference, and that the raised class names a defect the reference finds present. Inputs "
             "carry every subset of six defect kinds.",
        note="Trusted: reference defect classifier (O-iban, O-bic, O-nat, O-de); order of checks left free.",
        design="7/C05"),
    "C06": dict(
        technique="generated BBANs with reference-computed national digits (accept side) and random/swept digits (reject side) "
                  "against independent national algorithms",
        text="For each of the 22 listed countries the library's verdict with national validation is compared with an "
             "independent three-valued implementation of the published algorithm on BBANs whose accept side is populated by "
             "reference-solved check digits; national field swept exhaustively for selected bases; monotonicity and "
             "no-effect on unlisted countries on valid and mutated texts; edge-directed bases (valid field value 00/01/97/98...); the "
             "same BBAN text under sibling countries in both orders; BBAN-level check returns True / raises on BBAN objects of every "
             "provenance.",
        note="Trusted: O-nat in vlib/oracles/nat.py; Norway accounts starting 00 tolerated.",
        design="7/C06"),
    "C07": dict(
        technique="generated accounts (uniform, short, boundary, remainder-directed; thorough: complete range 0..999,999) against "
                  "an independent three-valued re-implementation of the Bundesbank methods, plus exhaustive bank-code dispatch",
        text="Every implemented method is compared with an independent reference on hundreds of thousands of generated "
             "accounts whose remainders 0/1/10 and documented boundaries are hit by construction; dispatch is checked through "
             "the public IBAN API for every German bank code of the bundled registry, unlisted codes and banks of "
             "unimplemented methods; banks sharing a method must agree (metamorphic); sibling-country warm-up (same 18 digits as CR/ME/RS/VA "
             "BBAN) and constructor / validate / from_bban(str|BBAN) must agree.",
        note="Trusted: O-de written from the Bundesbank descriptions (reproduces all 70 literals of the repository's tests); "
             "ambiguous regions (13/63/68/76 sub-accounts, 16/23 remainder 1 with digit 0) are undecided and tolerated.",
        design="7/C07"),
    "C08": dict(
        technique="generated component tuples (enumerated width-class grid, constructive modes, Hypothesis text) against a "
                  "reference placement model and O-iban validity",
        text="For every country (and unknown/position-less ones) component strings of all width classes and character kinds "
             "are passed to IBAN.generate and BBAN.from_components; the result must be a reference-valid IBAN carrying "
             "norm(value).zfill(width) at the table position (combined bank code split), or a library error - of the class "
             "specific to an over-long component when one is over-long. Nothing else may escape. Includes whitespace-only and upper-case-"
             "lengthening components, grouped spellings (60-16-13), calls after other uses of the country, and synthetic countries with "
             "unusual field layouts added by an overlay in a copy of the package.",
        note="Trusted: reference placement model; success is not demanded where the statement allows an error, success counts "
             "per country are reported.",
        design="7/C08"),
    "C09": dict(
        technique="generated components / seeded random draws checked by library national validation AND an independent national "
                  "reference; parse->rebuild round trip on reference-built nationally valid IBANs",
        text="Whatever the library builds (generate, random with/without registry) for the 19 field countries must pass its own "
             "national validation and the independent reference, so compute and validate cannot err the same way; components "
             "read off nationally valid IBANs of every country with positions rebuild the same BBAN outside filler positions; every "
             "value of the national check field over bases at both ends of its computed range: whatever the library accepts nationally "
             "must rebuild to itself.",
        note="Trusted: O-nat; generator of nationally valid BBANs.",
        design="7/C09"),
    "C10": dict(
        technique="metamorphic testing: enumerated whitespace insertions and generated whitespace/case variants of valid and "
                  "invalid IBAN/BIC texts",
        text="Variants differing only in whitespace (27 Unicode whitespace characters, anywhere, doubled) and ASCII letter case "
             "must get the same verdict in every mode and equal unvalidated objects with a normalised compact form; formatted "
             "forms are checked against their definition and re-parsed.",
        note="Trusted: norm() as the statement's normalisation; no reference model needed beyond it (metamorphic).",
        design="7/C10"),
    "C11": dict(
        technique="generated accepted IBANs of all countries / BICs compared field by field with slices of an independently merged "
                  "country table",
        text="For reference-built valid IBANs of every bundled country and registry-derived IBANs each of the eight accessors on "
             "IBAN and BBAN must equal the table slice, fields must be disjoint and inside the BBAN, from_bban must reproduce "
             "the IBAN; BIC parts must concatenate to the compact form.",
        note="Trusted: reference table merge (checked against the library by C18).",
        design="7/C11"),
    "C12": dict(
        technique="exhaustive enumeration of all registry keys/BICs plus generated synthetic registries in package copies, against a "
                  "reference index and a validity predicate for candidate order and choice",
        text="Every (country, bank code) key of the bundled registry, unlisted neighbours, an IBAN around every key, and generated "
             "registries (plain and v2 files, duplicates, empty/null BICs, random primary flags) loaded by copies of the package "
             "are compared with a reference index built from the JSON files: candidate multiset, primaries first, 8-char / XXX / "
             "first choice, InvalidBankCode for unlisted pairs (incl. boundary-shifted argument pairs and misshapen codes), inversion, IBAN-side "
             "bank/bic/names, overlay countries whose lookup key is made of non-adjacent fields.",
        note="Trusted: reference registry loader (vlib/oracles/reg.py); order inside groups is left free.",
        design="7/C12"),
    "C13": dict(
        technique="generated (country, seed, registry mode, pin set) calls judged by O-iban and table slices; differential across "
                  "fresh interpreters with varied PYTHONHASHSEED",
        text="Random generation for every country and the no-country form, with Hypothesis-drawn seeds and pin subsets: result "
             "valid for the requested country, pins read back unchanged, only the overflow error raised, registry draws belong "
             "to a listed bank, identical results for equal seeds in-process, after other uses of the country, and in fresh processes under "
             "several hash seeds; pins include values taken from listed banks.",
        note="Trusted: O-iban; pins restricted to field-sized conforming values (what the statement defines).",
        design="7/C13"),
    "C16": dict(
        technique="generated pairs/lists of objects and strings compared with the same operation on key strings; copy/pickle round "
                  "trips on generated valid and unvalidated objects",
        text="Hypothesis builds pairs and lists of IBAN/BIC/BBAN objects and plain strings with frequent equal-compact cross-class "
             "pairs; ==, !=, <, <=, >, >=, hash, dict/set membership, sorted() and set size must equal the operation on the "
             "compact strings. copy, deepcopy and pickle protocols 0-5 of valid and unvalidated IBANs, their BBANs, direct BBANs "
             "and BICs must give the same class, equality, country and components; containers of same-text objects of different country; "
             "objects hashed and pickled by an interpreter with another hash seed.",
        note="Trusted: key function k(object)=norm(source text), k(str)=str.",
        design="7/C16"),
    "C17": dict(
        technique="complete enumeration of the bundled country and bank entries against a consistency predicate, reference-built "
                  "IBAN per bank entry given to the library, generated data corruptions as sensitivity self-test",
        text="Every country entry and every bank entry of the JSON files in the tree is checked against the stated consistency "
             "rules; for every bank entry with a bank code a valid IBAN is built around it and the library must accept it and find "
             "the bank (and a BIC) again; every registered national algorithm is run on nationally valid input and must find every field "
             "its published algorithm reads; rows sharing a bank key agree on the method. Exhaustive over the data present at check time.",
        note="Trusted: reference table/registry loaders and structure parser; generated corruptions of the data (each flagged) show "
             "the predicate is not vacuous.",
        design="7/C17"),
    "C18": dict(
        technique="Hypothesis-generated nested overlay documents / v2 documents against a reference merge; generated registry "
                  "directories in package copies against the reference composition and behaviour probes",
        text="merge_dicts and parse_v2 are compared with independent references on generated nested dictionaries (pairs, triples) "
             "and v2 documents; copies of the package with generated overlay files sorting before/between/after the bundled ones "
             "and generated bank files must expose exactly the reference table and bank list, validate/parse IBANs according to "
             "the effective table, and leave unnamed countries untouched.",
        note="Trusted: O-merge/O-reg; file names restricted so that every reasonable 'alpha-numeric' order coincides.",
        design="7/C18"),
    "C14": dict(
        technique="generated call sets x generated/enumerated thread schedules under a deterministic scheduler (sys.settrace baton), "
                  "differential against the same call run alone",
        text="Two or three library calls run in real threads whose interleaving the harness owns at source-line granularity "
             "(opcode samples in thorough): all 'a steps / b steps' two-preemption schedules of method-level and national-algorithm call "
             "pairs (stride in quick), a switch at the first arrival at every distinct source location of one call (both orders) for "
             "IBAN-level pairs - warm and as the first calls of a fresh process (fork of a pristine zygote per schedule) -, PRNG- and "
             "Hypothesis-drawn preemption lists. Every outcome must equal the outcome of the call run alone.",
        note="Trusted: the scheduler (vlib/engines/sched.py); C code and third-party modules are atomic steps, so races inside them "
             "are not explored.",
        design="7/C14"),
    "C15": dict(
        technique="Hypothesis rule-based state machine over call histories, differential against a fresh-process (fork zygote) "
                  "evaluation of every call, invariants over stored objects and registries",
        text="Generated histories of validation, generation, seeded random generation, lookups, direct algorithm calls (including "
             "failing ones) and operations on stored objects; each step's outcome must equal the outcome of the same call as the "
             "first call in a fresh process; stored objects and the registries must never change. Burst rules route several calls to one "
             "algorithm object / bank key / BBAN text under sibling countries, and degenerate accounts (one non-zero digit) right after "
             "edge-remainder accounts; failing histories (whole process log) are minimised by "
             "ddmin in forks of the pristine zygote.",
        note="Trusted: the zygote (fork of an interpreter that imported the library and called nothing) as the meaning of 'fresh "
             "process'; JSON normalisation of outcomes.",
        design="7/C15"),
}

NOT_YET = "check not built yet in this round (planned in DESIGN.md section 7)"


def main():
    props = [json.loads(l)["id"] for l in open(os.path.join(HERE, "properties.jsonl"))]
    checks = []
    for pid in props:
        c = CHECKS.get(pid)
        if not c:
            continue
        checks.append({
            "property_id": pid,
            "quick_cmd": f"./check {pid} quick",
            "thorough_cmd": f"./check {pid} thorough",
            "evidence_file": f"evidence/{pid}.json",
            "replay_cmd_template": f"./check {pid} --replay {{path}}",
            "engine": c.get("engine", "vlib"),
            "level_claimed": {"category": "exploration", "text": c["text"], "design_ref": c["design"]},
            "level_note": c["note"],
            "technique": c["technique"],
        })
    manifest = {
        "version": 1,
        "setup_cmd": "./setup.sh",
        "hooks": {
            "guard": "SCHWIFTY_VERIF",
            "enable": "no source hooks exist: schedules are owned through sys.settrace, histories through os.fork, "
                      "registries through package copies; checks import /repo's working tree via PYTHONPATH",
            "baseline_off_cmd": "cd /repo && /venv/bin/python -m pytest -ra -q -p no:cacheprovider --timeout=900 "
                                "--continue-on-collection-errors",
            "source_commits": [],
            "add_only": True,
        },
        "engines": [
            {"name": "vlib", "path": "vlib/", "serves_properties": [c["property_id"] for c in checks],
             "kind_free_text": "Python harness: reference oracles, constructive generators, exhaustive neighbourhood "
                               "enumeration over a 16-process pool, Hypothesis strategies/state machines, deterministic "
                               "thread scheduler, fork zygote, package copies"},
        ],
        "checks": checks,
        "not_applicable": [{"property_id": p, "reason": NOT_YET} for p in props if p not in CHECKS],
        "notes": "All checks: exit 0 held / 1 VIOLATION / 2 harness error. VERIF_SEED seeds every random choice. "
                 "VERIF_REPO (default /repo) selects the tree under test. The level texts name each check's core domains; the "
                 "generator dimensions added while testing the checks against 283 seeded changes (whole code space, source-literal "
                 "dictionary, interpreter configurations, validation routes, foreign and other-class objects, aged processes, "
                 "two-point schedules, hostile registries, ...) are listed in DESIGN.md sections 11.6-11.17.",
    }
    with open(os.path.join(HERE, "MANIFEST.json"), "w") as fp:
        json.dump(manifest, fp, indent=1)
        fp.write("\n")


if __name__ == "__main__":
    main()
